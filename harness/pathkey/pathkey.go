package pathkey

import (
	"math/rand"

	"github.com/theQRL/go-qrllib/xmss"
)

// Make assembles, from the library's own building blocks (genLeafWOTS, validateAuthPath, PRF, hMsg,
// wotsSign), a valid (message, signature, public key) triple for a "key" that consists of ONE
// authentication path of h nodes: no tree is built, so every height 1..30 (odd ones too) costs the
// same. The root is whatever the path hashes to; the descriptor declares `declared`.
type Triple struct {
	H, Hf, Idx int
	Msg, Sig   []byte
	Pk         [67]uint8
}

func Make(r *rand.Rand, h, hf int, idx uint32, declared int, msgLen int) Triple {
	return MakeRootDelta(r, h, hf, idx, declared, msgLen, nil)
}

// MakeRootDelta: as Make, but the public key carries root XOR delta and the signer (who holds the secret)
// computes the message hash under THAT root: everything is consistent except that the path does not lead to
// the root in the public key. With delta = nil the triple is valid.
func MakeRootDelta(r *rand.Rand, h, hf int, idx uint32, declared int, msgLen int, delta []byte) Triple {
	skSeed, skPRF, pubSeed := make([]byte, 32), make([]byte, 32), make([]byte, 32)
	r.Read(skSeed)
	r.Read(skPRF)
	r.Read(pubSeed)
	f := xmss.HashFunction(hf)
	leaf := make([]byte, 32)
	xmss.VerifGenLeaf(f, leaf, skSeed, pubSeed, uint32(h), idx)
	auth := make([]byte, 32*h)
	r.Read(auth)
	root := make([]byte, 32)
	xmss.VerifValidateAuthPath(f, root, leaf, idx, auth, uint32(h), pubSeed)
	for i := range delta {
		root[i] ^= delta[i]
	}
	var pk [67]uint8
	pk[0] = uint8(hf)
	pk[1] = uint8(declared/2) & 0x0f
	copy(pk[3:35], root)
	copy(pk[35:], pubSeed)
	msg := make([]byte, msgLen)
	r.Read(msg)
	idx32 := make([]byte, 32)
	idx32[28], idx32[29], idx32[30], idx32[31] = byte(idx>>24), byte(idx>>16), byte(idx>>8), byte(idx)
	R := make([]byte, 32)
	xmss.VerifPRF(f, R, idx32, skPRF)
	hashKey := append(append(append([]byte{}, R...), root...), idx32...)
	mh := make([]byte, 32)
	xmss.VerifHMsg(f, mh, msg, hashKey)
	w := xmss.VerifWOTSSign(f, mh, skSeed, pubSeed, idx)
	sig := []byte{byte(idx >> 24), byte(idx >> 16), byte(idx >> 8), byte(idx)}
	sig = append(sig, R...)
	sig = append(sig, w...)
	sig = append(sig, auth...)
	return Triple{H: h, Hf: hf, Idx: int(idx), Msg: msg, Sig: sig, Pk: pk}
}
