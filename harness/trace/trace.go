// Package trace writes ndjson traces for the TLA+ trace specifications.
package trace

import (
	"bufio"
	"bytes"
	"encoding/json"
	"os"
	"sync"
)

// Buf collects events (one JSON object per line).
type Buf struct {
	mu sync.Mutex
	b  bytes.Buffer
	N  int
}

func (t *Buf) Emit(ev interface{}) {
	j, err := json.Marshal(ev)
	if err != nil {
		panic(err)
	}
	t.mu.Lock()
	t.b.Write(j)
	t.b.WriteByte('\n')
	t.N++
	t.mu.Unlock()
}

func (t *Buf) Append(o *Buf) {
	t.b.Write(o.b.Bytes())
	t.N += o.N
}

func (t *Buf) Bytes() []byte { return t.b.Bytes() }

func (t *Buf) WriteFile(path string) error {
	f, err := os.Create(path)
	if err != nil {
		return err
	}
	w := bufio.NewWriter(f)
	if _, err := w.Write(t.b.Bytes()); err != nil {
		return err
	}
	if err := w.Flush(); err != nil {
		return err
	}
	return f.Close()
}

// WriteJSON writes v as indented JSON.
func WriteJSON(path string, v interface{}) error {
	j, err := json.MarshalIndent(v, "", " ")
	if err != nil {
		return err
	}
	return os.WriteFile(path, j, 0o644)
}

// WriteJSONCompact writes v as compact JSON (large tables).
func WriteJSONCompact(path string, v interface{}) error {
	j, err := json.Marshal(v)
	if err != nil {
		return err
	}
	return os.WriteFile(path, j, 0o644)
}
