package main

import (
	"bytes"
	"encoding/binary"
	"math/rand"
	"runtime"
	"strconv"
	"sync"

	"github.com/theQRL/go-qrllib/common"
	"github.com/theQRL/go-qrllib/xmss"

	"verifharness/oracle"
	"verifharness/trace"
	"verifharness/xproj"
)

type keyEvent struct {
	Ev       string  `json:"ev"`
	Hf       int     `json:"hf"`
	H        int     `json:"h"`
	Seed     []int   `json:"seed"`
	Pk       []int   `json:"pk"`
	Leaves   [][]int `json:"leaves"`
	Complete []int   `json:"complete"`
	Plan     int     `json:"plan"`
}

type sigEvent struct {
	Ev      string  `json:"ev"`
	KeyLine int     `json:"keyline"`
	Hf      int     `json:"hf"`
	H       int     `json:"h"`
	Seed    []int   `json:"seed"`
	Leaves  [][]int `json:"leaves"`
	Idx     int     `json:"idx"`
	Msg     []int   `json:"msg"`
	Sig     []int   `json:"sig"`
	Plan    int     `json:"plan"`
}

type sigHeadEvent struct {
	Ev     string `json:"ev"`
	Hf     int    `json:"hf"`
	H      int    `json:"h"`
	Seed   []int  `json:"seed"`
	Root   []int  `json:"root"`
	PkSeed []int  `json:"pkseed"`
	Idx    int    `json:"idx"`
	Msg    []int  `json:"msg"`
	Head   []int  `json:"head"`
	Plan   int    `json:"plan"`
}

type sameEvent struct {
	Ev            string `json:"ev"`
	Plan          int    `json:"plan"`
	Same16        bool   `json:"same16"`
	Deterministic bool   `json:"deterministic"`
	Verifies      bool   `json:"verifies"`
}

// rows recorded from coreHash: decoded enough to select what the quick tier keeps
type hrow struct {
	alg     int
	buf     []byte
	out     []byte
	keepAll bool
}

func c06(r *rand.Rand, tier string, vseed int, tr *trace.Buf, tablePath string, extra map[string]interface{}) {
	tab := oracle.NewTable()
	totalRows := 0
	audited, failed := 0, 0
	var cur []hrow
	xmss.VerifHashHook = func(hf xmss.HashFunction, typeValue uint32, buf, out []uint8) {
		cur = append(cur, hrow{alg: int(hf), buf: append([]byte{}, buf...), out: append([]byte{}, out[:32]...)})
	}
	type plan struct {
		h, hf int
		seam  bool // synthetic leaves except the complete ones (leaf hook): tall trees whose node indices exceed 4095
	}
	var plans []plan
	if tier == "quick" {
		plans = []plan{{4, vseed % 3, false}, {10, (vseed + 1) % 3, false}, {14, (vseed + 2) % 3, true}}
	} else {
		plans = []plan{{4, 0, false}, {4, 1, false}, {4, 2, false}, {6, (vseed + 1) % 3, false}, {8, (vseed + 2) % 3, false}, {10, vseed % 3, false},
			{14, (vseed + 1) % 3, true}, {14, (vseed + 2) % 3, true}}
	}
	msgLens := []int{0, 1, 31, 32, 33, 64, 4095, 4096, 4097, 10000}
	msgNo := vseed
	for pi, pl := range plans {
		tab = oracle.NewTable() // one table per key: a validating TLC process loads only what its events need
		var seed [48]uint8
		r.Read(seed[:])
		n := 1 << uint(pl.h)
		// which leaves are recomputed completely by the specification
		complete := []int{0, 1 + r.Intn(n-1)}
		if tier == "thorough" && pl.h == 4 {
			complete = nil
			for i := 0; i < n; i++ {
				complete = append(complete, i)
			}
		} else if tier == "thorough" {
			complete = []int{0, n - 1, 1 + r.Intn(n-2), 1 + r.Intn(n-2)}
		}
		isComplete := map[uint32]bool{}
		for _, i := range complete {
			isComplete[uint32(i)] = true
		}
		cur = nil
		tall := pl.h >= 8
		if tall { // millions of calls: key generation is not recorded, the needed rows are produced below
			xmss.VerifHashHook = nil
			complete = []int{1 + r.Intn(n-1)}
			if pl.seam {
				complete = []int{4096 + r.Intn(n-4096)} // an L-tree / OTS address word above 4095
			}
			isComplete = map[uint32]bool{uint32(complete[0]): true}
		}
		xmss.VerifLeafHook = nil
		if pl.seam {
			realLeaf := uint32(complete[0])
			xmss.VerifLeafHook = func(hf xmss.HashFunction, leaf []uint8, idx uint32) bool {
				if idx == realLeaf {
					return false
				}
				b := []byte{byte(idx), byte(idx >> 8), byte(idx >> 16), 0x77, byte(hf)}
				for i := range leaf {
					leaf[i] = b[i%5] ^ byte(i*29)
				}
				return true
			}
		}
		x := xmss.NewXMSSFromSeed(seed, uint8(pl.h), xmss.HashFunction(pl.hf), common.SHA256_2X)
		keygenRows := cur
		pk := x.GetPK()
		// seed expansion (not a coreHash call): SHAKE256(seed, 96) by the standard library
		exp, _ := oracle.Hash(oracle.SHAKE256_96, seed[:], 96)
		tab.Add(oracle.SHAKE256_96, seed[:], exp)
		// audit and select rows: keep rows of the complete leaves (by OTS / L-tree address), all tree rows
		pubSeed := exp[64:96]
		keep := func(rows []hrow, all bool) {
			for _, rw := range rows {
				want, _ := oracle.Hash(rw.alg, rw.buf, 32)
				audited++
				if !bytes.Equal(want, rw.out) {
					failed++
					continue // a row the standard library does not confirm is not given to the specification
				}
				if all || selected(rw.buf, pubSeed, isComplete) {
					tab.Add(rw.alg, rw.buf, rw.out)
				}
			}
		}
		keep(keygenRows, false)
		// the leaf values as the library computes them (no traversal state involved)
		xmss.VerifHashHook = nil
		skSeed := exp[0:32]
		leaves := make([][]int, n)
		{
			var wg sync.WaitGroup
			nw := runtime.NumCPU()
			for w := 0; w < nw; w++ {
				w := w
				wg.Add(1)
				go func() {
					defer wg.Done()
					for i := w; i < n; i += nw {
						leaf := make([]byte, 32)
						xmss.VerifGenLeaf(xmss.HashFunction(pl.hf), leaf, skSeed, pubSeed, uint32(pl.h), uint32(i))
						leaves[i] = ints(leaf)
					}
				}()
			}
			wg.Wait()
		}
		xmss.VerifHashHook = func(hf xmss.HashFunction, typeValue uint32, buf, out []uint8) {
			cur = append(cur, hrow{alg: int(hf), buf: append([]byte{}, buf...), out: append([]byte{}, out[:32]...)})
		}
		if tall {
			// the rows of the complete leaf and of the tree above the leaves, through the library's own
			// genLeafWOTS / hashH (recorded and audited like every other row)
			cur = nil
			lb := make([]byte, 32)
			xmss.VerifGenLeaf(xmss.HashFunction(pl.hf), lb, skSeed, pubSeed, uint32(pl.h), uint32(complete[0]))
			level := make([][]byte, n)
			for i := range level {
				level[i] = make([]byte, 32)
				for j, v := range leaves[i] {
					level[i][j] = byte(v)
				}
			}
			for ht := 0; len(level) > 1; ht++ {
				next := make([][]byte, len(level)/2)
				for k := range next {
					var addr [8]uint32
					addr[3], addr[5], addr[6] = 2, uint32(ht), uint32(k)
					next[k] = make([]byte, 32)
					xmss.VerifHashH(xmss.HashFunction(pl.hf), next[k], append(append([]byte{}, level[2*k]...), level[2*k+1]...), pubSeed, &addr)
				}
				level = next
			}
			keep(cur, true)
			cur = nil
		}
		tr.Emit(keyEvent{Ev: "key", Hf: pl.hf, H: pl.h, Seed: ints(seed[:]), Pk: ints(pk[:]), Leaves: leaves, Complete: complete, Plan: pi})
		keyLine := tr.N
		// signatures at seeded indices (first, one reached by signing, one reached by a jump, last)
		idxs := []int{0, 1, 2 + r.Intn(n-3), n - 1}
		if tier == "thorough" && pl.h == 4 {
			idxs = nil
			for i := 0; i < n; i++ {
				idxs = append(idxs, i)
			}
		} else if tier == "quick" {
			idxs = []int{[]int{0, 1}[r.Intn(2)], 2 + r.Intn(n-2)}
		}
		if tall {
			if n > 257 {
				idxs = []int{255 + r.Intn(2), 256 + r.Intn(n-257), n - 1}
			} else {
				idxs = []int{1 + r.Intn(n/2), n/2 + r.Intn(n/2-1), n - 1}
			}
			if tier == "quick" {
				idxs = idxs[1:2]
			}
		}
		if pl.seam {
			idxs = []int{complete[0]} // the one leaf that is real
		}
		// every key also signs one LONG message (another code path for >= one block in some implementations)
		longAt := -1
		if last := idxs[len(idxs)-1]; last+1 < n && !pl.seam {
			idxs = append(idxs, last+1)
			longAt = last + 1
		} else if pl.seam {
			longAt = idxs[len(idxs)-1]
		}
		for _, i := range idxs {
			if uint32(i) < x.GetIndex() {
				continue
			}
			hook := xmss.VerifHashHook
			xmss.VerifHashHook = nil // the fast-forward makes millions of hash calls the specification never looks up
			x.SetIndex(uint32(i))
			xmss.VerifHashHook = hook
			msg := make([]byte, msgLens[msgNo%len(msgLens)])
			msgNo++
			if pi == 0 && i == idxs[0] { // the empty message, always
				msg = []byte{}
			}
			if i == longAt {
				msg = make([]byte, []int{4096, 4097, 10000, 5000}[(pi+vseed)%4])
				if pi == 0 { // one message beyond 64 KiB (a streaming path would start at some such size)
					msg = make([]byte, 65537+r.Intn(3000))
				}
			}
			r.Read(msg)
			cur = nil
			sig, err := x.Sign(msg)
			if err != nil {
				continue
			}
			keep(cur, true)
			tr.Emit(sigEvent{Ev: "sig", KeyLine: keyLine, Hf: pl.hf, H: pl.h, Seed: ints(seed[:]), Leaves: leaves, Idx: i, Msg: ints(msg), Sig: ints(sig), Plan: pi})
			// entry-point agreement and determinism of an independent second construction
			xmss.VerifHashHook = nil
			sig2, pk2, a2 := sig, pk, x.GetAddress()
			if !tall {
				y := xmss.NewXMSSFromSeed(seed, uint8(pl.h), xmss.HashFunction(pl.hf), common.SHA256_2X)
				y.SetIndex(uint32(i))
				sig2, _ = y.Sign(msg)
				pk2 = y.GetPK()
				a2 = y.GetAddress()
			}
			if !tall || pl.seam || pl.h <= 10 {
				// the third constructor: the key is the same function of the same inputs when they arrive
				// as an extended seed (descriptor || seed)
				z := xmss.NewXMSSFromExtendedSeed(x.GetExtendedSeed())
				if z.GetPK() != pk || z.GetAddress() != x.GetAddress() || z.GetSeed() != x.GetSeed() {
					pk2 = z.GetPK()
					a2 = z.GetAddress()
					if pk2 == pk { // the difference is in the address or the seed: make the comparison below fail
						a2[0] ^= 0xff
					}
				}
			}
			xmss.VerifHashHook = hook
			a1 := x.GetAddress()
			v1 := xmss.Verify(msg, sig, pk)
			v2 := xmss.VerifyWithCustomWOTSParamW(msg, sig, pk, 16)
			tr.Emit(sameEvent{Ev: "same", Plan: pi, Same16: v1 == v2, Deterministic: bytes.Equal(sig, sig2) && pk == pk2 && a1 == a2, Verifies: v1})
		}
		trace.WriteJSONCompact(tablePath+".p"+strconv.Itoa(pi), tab)
		totalRows += tab.Rows
	}
	// trees too tall to be held (positional: leaf seam + node seam, nothing of the tree is hashed): the part of a
	// signature that does not depend on the tree - index, R, WOTS signature - at indices whose upper bytes are in
	// use (2^16, 2^24): the index words of the hash addresses, of the PRF input and of the H_msg key
	{
		type tp struct{ h, at int }
		tplans := []tp{{18, 1<<16 - 1}, {26, 1<<24 - 1}}
		if tier == "thorough" {
			tplans = append(tplans, tp{30, 1<<24 + 1<<16 - 1})
		}
		for ti, tpl := range tplans {
			pi := len(plans) + ti
			tab = oracle.NewTable()
			tag := uint64(r.Int63())
			xmss.VerifHashHook = nil
			xmss.VerifLeafHook = func(hf xmss.HashFunction, leaf []uint8, idx uint32) bool {
				copy(leaf, xproj.PosNode(tag, 0, idx))
				return true
			}
			xmss.VerifNodeHook = func(hf xmss.HashFunction, out []uint8, addr *[8]uint32) bool {
				if addr[3] != 2 {
					return false
				}
				copy(out, xproj.PosNode(tag, int(addr[5])+1, addr[6]))
				return true
			}
			var seed [48]uint8
			r.Read(seed[:])
			hf := (vseed + ti) % 3
			x := xmss.NewXMSSFromSeed(seed, uint8(tpl.h), xmss.HashFunction(hf), common.SHA256_2X)
			pk := x.GetPK()
			x.SetIndex(uint32(tpl.at))
			for q := 0; q < 2; q++ { // at = ..ffff and the index after the carry
				idx := int(x.GetIndex())
				msg := make([]byte, 1+r.Intn(40))
				r.Read(msg)
				cur = nil
				xmss.VerifHashHook = func(hf xmss.HashFunction, typeValue uint32, buf, out []uint8) {
					cur = append(cur, hrow{alg: int(hf), buf: append([]byte{}, buf...), out: append([]byte{}, out[:32]...)})
				}
				sig, err := x.Sign(msg)
				xmss.VerifHashHook = nil
				if err != nil {
					continue
				}
				for _, rw := range cur { // audited rows of this signature for the specification's table
					want, _ := oracle.Hash(rw.alg, rw.buf, 32)
					audited++
					if !bytes.Equal(want, rw.out) {
						failed++
						continue
					}
					tab.Add(rw.alg, rw.buf, rw.out)
				}
				tr.Emit(sigHeadEvent{Ev: "sighead", Hf: hf, H: tpl.h, Seed: ints(seed[:]), Root: ints(pk[3:35]), PkSeed: ints(pk[35:67]),
					Idx: idx, Msg: ints(msg), Head: ints(sig[:4+32+67*32]), Plan: pi})
			}
			exp, _ := oracle.Hash(oracle.SHAKE256_96, seed[:], 96)
			tab.Add(oracle.SHAKE256_96, seed[:], exp)
			trace.WriteJSONCompact(tablePath+".p"+strconv.Itoa(pi), tab)
			totalRows += tab.Rows
			xmss.VerifNodeHook = nil
		}
	}
	xmss.VerifHashHook = nil
	xmss.VerifLeafHook = nil
	trace.WriteJSONCompact(tablePath, oracle.NewTable())
	extra["table_rows"] = totalRows
	extra["rows_audited"] = audited
	extra["rows_failing_audit"] = failed
}

// selected: does this coreHash input belong to a complete leaf, or to the tree above the leaves?
// PRF rows keyed by PUB_SEED carry a serialised address as input; everything else (F, H inputs,
// secret-key PRFs) is kept for complete leaves only when it can be attributed - rows that cannot be
// attributed are kept too (the table is a cache: a missing row is recomputed by the oracle).
func selected(buf, pubSeed []byte, complete map[uint32]bool) bool {
	if len(buf) != 96 && len(buf) != 128 {
		return true
	}
	typ := binary.BigEndian.Uint32(buf[28:32])
	if typ == 3 && bytes.Equal(buf[32:64], pubSeed) && len(buf) == 96 {
		at := binary.BigEndian.Uint32(buf[64+12 : 64+16])
		a4 := binary.BigEndian.Uint32(buf[64+16 : 64+20])
		if at == 2 {
			return true
		}
		return complete[a4]
	}
	// F / H / secret PRF rows: cannot be attributed from the bytes alone; keep a bounded number
	return true
}
