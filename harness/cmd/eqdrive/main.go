// eqdrive records what the equational specifications need: the hash calls the
// real code makes (through the build-tagged hooks), audited row by row against
// the standard library, and the keys / signatures the public API returned.
// Traces for spec/TraceXmssEq.tla (C06) and spec/TraceDilithiumEq.tla (C07).
package main

import (
	"bytes"
	"flag"
	"fmt"
	"math/rand"
	"os"
	"time"

	"verifharness/oracle"
	"verifharness/trace"
)

func ints(b []byte) []int {
	o := make([]int, len(b))
	for i, v := range b {
		o[i] = int(v)
	}
	return o
}

var _ = bytes.Equal

func main() {
	prop := flag.String("prop", "C06", "C06 | C07")
	tier := flag.String("tier", "quick", "quick | thorough")
	seed := flag.Int64("seed", 1, "VERIF_SEED")
	out := flag.String("out", "", "trace file")
	table := flag.String("table", "", "hash table (json)")
	statsOut := flag.String("stats", "", "stats json")
	flag.Parse()
	t0 := time.Now()
	r := rand.New(rand.NewSource(*seed*86028121 + int64((*prop)[2])))
	tr := &trace.Buf{}
	extra := map[string]interface{}{}
	switch *prop {
	case "C06":
		c06(r, *tier, int(*seed), tr, *table, extra)
	case "C07":
		c07(r, *tier, tr, extra)
		trace.WriteJSONCompact(*table, oracle.NewTable())
	default:
		fmt.Fprintln(os.Stderr, "unknown prop")
		os.Exit(2)
	}
	if err := tr.WriteFile(*out); err != nil {
		fmt.Fprintln(os.Stderr, err)
		os.Exit(2)
	}
	if *statsOut != "" {
		extra["events"] = tr.N
		extra["wall_s"] = time.Since(t0).Seconds()
		trace.WriteJSON(*statsOut, extra)
	}
}
