package main

import (
	"bytes"
	"math/rand"
	"runtime"
	"sort"
	"sync"

	"github.com/theQRL/go-qrllib/dilithium"

	"verifharness/oracle"
	"verifharness/trace"
)

type dIter struct {
	Exit   int   `json:"exit"`
	Nonce  int   `json:"nonce"`
	C      []int `json:"c"`
	MaxZ   int   `json:"maxz"`
	MaxW0  int   `json:"maxw0"`
	MaxCt0 int   `json:"maxct0"`
	Hints  int   `json:"hints"`
}

const qmod = 8380417

func cabs(c int32) int {
	v := int64(c) % qmod
	if v < 0 {
		v += qmod
	}
	if v > (qmod-1)/2 {
		v -= qmod
	}
	if v < 0 {
		v = -v
	}
	return int(v)
}

func vmax(ps []dilithium.VerifPoly) int {
	m := 0
	for i := range ps {
		for _, c := range ps[i] {
			if a := cabs(c); a > m {
				m = a
			}
		}
	}
	return m
}

type dEvent struct {
	Ev        string  `json:"ev"`
	Seed      []int   `json:"seed,omitempty"`
	Pk        []int   `json:"pk,omitempty"`
	Sk        []int   `json:"sk,omitempty"`
	Positions [][]int `json:"positions"`
	KeyLine   int     `json:"keyline"`
	Msg       []int   `json:"msg"`
	Sig       []int   `json:"sig,omitempty"`
	Iters     []dIter `json:"iters,omitempty"`
	Same      bool    `json:"same"`
	Kind      string  `json:"kind,omitempty"`
	Buf       []int   `json:"buf"`
	Out       []int   `json:"out"`
	Ctr       int     `json:"ctr"`
	Class     string  `json:"class,omitempty"`
}

var c07Hook func(exit int, nonce uint16, c []uint8, z *[dilithium.L]dilithium.VerifPoly, w0, h *[dilithium.K]dilithium.VerifPoly, hints uint)

func fix(e dEvent) dEvent {
	if e.Buf == nil {
		e.Buf = []int{}
	}
	if e.Out == nil {
		e.Out = []int{}
	}
	return e
}

func i32s(a []int32) []int {
	o := make([]int, len(a))
	for i, v := range a {
		o[i] = int(v)
	}
	return o
}

func c07(r *rand.Rand, tier string, tr *trace.Buf, extra map[string]interface{}) {
	var its []dIter
	pw0, pct0 := -1, -1
	light := false // loop events: scalars only, no challenge seed
	dilithium.VerifSignHook = func(exit int, nonce uint16, c []uint8, z *[dilithium.L]dilithium.VerifPoly, w0, h *[dilithium.K]dilithium.VerifPoly, hints uint) {
		switch exit {
		case 12:
			pw0 = vmax(w0[:])
			return
		case 13:
			pct0 = vmax(h[:])
			return
		}
		it := dIter{Exit: exit, Nonce: int(nonce), MaxZ: vmax(z[:]), MaxW0: pw0, MaxCt0: pct0, Hints: int(hints)}
		if !light {
			it.C = ints(c)
		} else {
			it.C = []int{}
		}
		switch exit {
		case 1:
			it.MaxW0, it.MaxCt0 = -1, -1
		case 2:
			it.MaxW0, it.MaxCt0 = vmax(w0[:]), -1
		case 3:
			it.MaxCt0 = vmax(h[:])
		}
		pw0, pct0 = -1, -1
		its = append(its, it)
	}
	nkeys, nsig, npos := 2, 7, 2
	if tier == "thorough" {
		nkeys, nsig, npos = 5, 20, 2
	}
	// message lengths around the SHAKE-256 rate with and without the 32-byte tr prefix, and long ones
	msgLens := []int{0, 1, 33, 103, 104, 105, 135, 136, 137, 200, 239, 240, 241, 271, 272, 273, 1000, 4563, 4564, 4595, 4596}
	positions := func(n int) [][]int {
		p := [][]int{{0, 0}, {7, 255}}
		for len(p) < n {
			p = append(p, []int{r.Intn(8), r.Intn(256)})
		}
		return p[:n]
	}
	iterHist := map[int]int{}
	for k := 0; k < nkeys; k++ {
		var seed [48]uint8
		r.Read(seed[:])
		d, err := dilithium.NewDilithiumFromSeed(seed)
		if err != nil {
			panic(err)
		}
		pk, sk := d.GetPK(), d.GetSK()
		tr.Emit(fix(dEvent{Ev: "keygen", Seed: ints(seed[:]), Pk: ints(pk[:]), Sk: ints(sk[:]), Positions: positions(npos), Msg: []int{}}))
		keyLine := tr.N
		var msgs [][]byte
		var sigs [][]byte
		for s := 0; s < nsig; s++ {
			msg := make([]byte, msgLens[(k*nsig+s)%len(msgLens)])
			r.Read(msg)
			its = nil
			sig, err := d.Sign(msg)
			if err != nil {
				panic(err)
			}
			iterHist[len(its)]++
			tr.Emit(fix(dEvent{Ev: "sign", KeyLine: keyLine, Sk: ints(sk[:]), Msg: ints(msg), Sig: ints(sig[:]), Iters: its, Positions: positions(npos)}))
			msgs = append(msgs, msg)
			sigs = append(sigs, append([]byte{}, sig[:]...))
		}
		// history-freeness: other calls in between, other order, sealed form
		for rep := 0; rep < 2; rep++ {
			order := r.Perm(len(msgs))
			for _, i := range order {
				d.Seal([]byte("noise"))
				dilithium.Verify(msgs[i], [dilithium.CryptoBytes]uint8{}, &pk)
				s2, _ := d.Sign(msgs[i])
				sl, _ := d.Seal(msgs[i])
				same := bytes.Equal(s2[:], sigs[i]) && len(sl) >= dilithium.CryptoBytes && bytes.Equal(sl[:dilithium.CryptoBytes], sigs[i])
				// a second object from the same seed
				d2, _ := dilithium.NewDilithiumFromSeed(seed)
				s3, _ := d2.Sign(msgs[i])
				same = same && bytes.Equal(s3[:], sigs[i])
				tr.Emit(fix(dEvent{Ev: "repeat", Same: same, Msg: []int{}, Positions: [][]int{}}))
			}
		}
	}
	// boundary seeking: many signatures with the loop's scalars only; the specification decides from
	// the exact norms which exit each iteration must take (tests met with equality are what is sought)
	light = true
	nloop := 1500
	if tier == "thorough" {
		nloop = 20000
	}
	bhits := map[string]int{}
	exits := map[int]int{}
	{
		var seed [48]uint8
		var d *dilithium.Dilithium
		for s := 0; s < nloop; s++ {
			if s%250 == 0 {
				r.Read(seed[:])
				d, _ = dilithium.NewDilithiumFromSeed(seed)
			}
			msg := make([]byte, 8+r.Intn(24))
			r.Read(msg)
			its = nil
			if _, err := d.Sign(msg); err != nil {
				panic(err)
			}
			for _, it := range its {
				exits[it.Exit]++
				if it.MaxZ == 524168 || it.MaxZ == 524167 {
					bhits["z"]++
				}
				if it.MaxW0 == 261768 || it.MaxW0 == 261767 {
					bhits["w0"]++
				}
				if it.MaxCt0 == 261888 || it.MaxCt0 == 261887 {
					bhits["ct0"]++
				}
				if it.Hints == 75 || it.Hints == 76 {
					bhits["hints"]++
				}
			}
			tr.Emit(fix(dEvent{Ev: "loop", Iters: its, Msg: []int{}, Positions: [][]int{}}))
		}
	}
	extra["boundary_hits"] = bhits
	extra["loop_exits"] = exits
	c07Hook = dilithium.VerifSignHook
	dilithium.VerifSignHook = nil
	// samplers on crafted streams: acceptance boundaries t = q-1 / q / q+1, top bit ignored, nibbles 14 / 15
	q := uint32(8380417)
	enc3 := func(t uint32) []byte { return []byte{byte(t), byte(t >> 8), byte(t >> 16)} }
	var ub []byte
	for _, t := range []uint32{0, 1, q - 2, q - 1, q, q + 1, 0x7fffff, 0x800000, 0x800000 | (q - 1), 0x800000 | q, 0xffffff, 12345} {
		ub = append(ub, enc3(t)...)
	}
	for len(ub) < 900 {
		ub = append(ub, byte(r.Intn(256)))
	}
	for _, n := range []int{len(ub), 36, 35, 34, 3, 2, 0} {
		out := make([]int32, 256)
		ctr := dilithium.VerifRejUniform(out, ub[:n])
		tr.Emit(fix(dEvent{Ev: "sampler", Kind: "rejuniform", Buf: ints(ub[:n]), Out: i32s(out[:ctr]), Ctr: int(ctr), Msg: []int{}, Positions: [][]int{}, Class: "boundary"}))
	}
	var eb []byte
	for hi := 0; hi < 16; hi++ {
		for lo := 0; lo < 16; lo++ {
			eb = append(eb, byte(hi<<4|lo))
		}
	}
	for _, n := range []int{256, 200, 128, 127, 1, 0} {
		out := make([]int32, 256)
		ctr := dilithium.VerifRejEta(out, eb[:n])
		tr.Emit(fix(dEvent{Ev: "sampler", Kind: "rejeta", Buf: ints(eb[:n]), Out: i32s(out[:ctr]), Ctr: int(ctr), Msg: []int{}, Positions: [][]int{}, Class: "all-nibbles"}))
	}
	// vector-level samplers: the nonce arithmetic of the signing loop (L*kappa + i) where the 16-bit
	// nonce crosses a byte border (kappa = 36) and far out, and of key generation
	{
		var s64 [64]uint8
		r.Read(s64[:])
		for _, kappa := range []int{0, 1, 2, 35, 36, 37, 72, 73, 255, 256, 1000, 9361, 9362} {
			y := dilithium.VerifPolyVecLUniformGamma1(s64, uint16(kappa))
			for i := 0; i < dilithium.L; i++ {
				tr.Emit(fix(dEvent{Ev: "sampler", Kind: "gamma1", Buf: ints(s64[:]), Out: i32s(y[i][:]), Ctr: (dilithium.L*kappa + i) & 0xffff, Msg: []int{}, Positions: [][]int{}, Class: "vector-level"}))
			}
		}
		for _, n0 := range []int{0, 7, 250, 65530} {
			s1, s2 := dilithium.VerifPolyVecUniformETA(&s64, uint16(n0))
			for i := 0; i < dilithium.L; i++ {
				tr.Emit(fix(dEvent{Ev: "sampler", Kind: "eta", Buf: ints(s64[:]), Out: i32s(s1[i][:]), Ctr: (n0 + i) & 0xffff, Msg: []int{}, Positions: [][]int{}, Class: "vector-level"}))
			}
			for i := 0; i < dilithium.K; i++ {
				tr.Emit(fix(dEvent{Ev: "sampler", Kind: "eta", Buf: ints(s64[:]), Out: i32s(s2[i][:]), Ctr: (n0 + i) & 0xffff, Msg: []int{}, Positions: [][]int{}, Class: "vector-level"}))
			}
		}
	}
	// boundary search for the matrix sampler: (rho, nonce) whose SHAKE-128 stream contains a 23-bit
	// candidate equal to q - 1 (accepted), q (rejected) or q + 1 within the part the sampler consumes;
	// the streams are computed with the standard library, the library's polyUniform is then run on them
	{
		want := map[uint32]int{8380416: 0, 8380417: 0, 8380418: 0}
		var rho [32]uint8
		for tries := 0; tries < 3000000; tries++ {
			done := true
			for _, c := range want {
				if c < 2 {
					done = false
				}
			}
			if done {
				break
			}
			r.Read(rho[:8])
			nonce := uint16(tries)
			st, _ := oracle.Hash(oracle.SHAKE128_N, append(append([]byte{}, rho[:]...), byte(nonce), byte(nonce>>8)), 840)
			acc := 0
			hit := uint32(0)
			for g := 0; g+3 <= len(st) && acc < 256; g += 3 {
				t := uint32(st[g]) | uint32(st[g+1])<<8 | uint32(st[g+2]&0x7f)<<16
				if c, ok := want[t]; ok && c < 2 {
					hit = t
				}
				if t < 8380417 {
					acc++
				}
			}
			if hit != 0 {
				want[hit]++
				u := dilithium.VerifPolyUniform(&rho, nonce)
				tr.Emit(fix(dEvent{Ev: "sampler", Kind: "uniform", Buf: ints(rho[:]), Out: i32s(u[:]), Ctr: int(nonce), Msg: []int{}, Positions: [][]int{}, Class: "candidate-at-q-boundary"}))
			}
		}
		extra["uniform_boundary_streams"] = want
	}
	// boundary search for key generation: seeds for which the conditional addition of q (cAddQ) decides
	// differently on t - s2 than on t, i.e. a coefficient of A*s1 and of A*s1 + s2 on different sides of 0
	// (about 1 seed in 3000). The criterion is evaluated on the unpacked key; the judgement is the complete
	// recomputation of the key by the specification, as for every other keygen event.
	{
		const q = 8380417
		wantKeys := 2
		if tier == "thorough" {
			wantKeys = 6
		}
		type cand struct {
			seed [48]uint8
			ok   bool // cAddQ boundary
			zA   bool // the expanded matrix has a coefficient that is exactly 0 (streams by the standard library)
			zS   bool // NTT(s1), NTT(s2) or NTT(t0) has a coefficient that is exactly 0 (library's transform, heuristic only)
		}
		ntry := 40000
		cands := make([]cand, ntry)
		for i := range cands {
			r.Read(cands[i].seed[:])
		}
		var wg sync.WaitGroup
		nw := runtime.NumCPU()
		for w := 0; w < nw; w++ {
			w := w
			wg.Add(1)
			go func() {
				defer wg.Done()
				for i := w; i < ntry; i += nw {
					d, err := dilithium.NewDilithiumFromSeed(cands[i].seed)
					if err != nil {
						continue
					}
					pk, sk := d.GetPK(), d.GetSK()
					_, t1 := dilithium.VerifUnpackPk(&pk)
					_, _, _, t0, _, s2 := dilithium.VerifUnpackSk(&sk)
					rho, _ := dilithium.VerifUnpackPk(&pk)
					for a := 0; a < dilithium.K && !cands[i].zA; a++ {
						for b := 0; b < dilithium.L && !cands[i].zA; b++ {
							st, _ := oracle.Hash(oracle.SHAKE128_N, append(append([]byte{}, rho[:]...), byte(b), byte(a)), 840)
							acc := 0
							for g := 0; g+3 <= len(st) && acc < 256; g += 3 {
								t := uint32(st[g]) | uint32(st[g+1])<<8 | uint32(st[g+2]&0x7f)<<16
								if t < q {
									acc++
									if t == 0 {
										cands[i].zA = true
									}
								}
							}
						}
					}
					_, _, _, t0u, s1u, s2u := dilithium.VerifUnpackSk(&sk)
					hasZero := func(p dilithium.VerifPoly) bool {
						dilithium.VerifNTT(&p)
						for _, c := range p {
							if c%q == 0 {
								return true
							}
						}
						return false
					}
					for a := 0; a < dilithium.L && !cands[i].zS; a++ {
						cands[i].zS = hasZero(s1u[a])
					}
					for a := 0; a < dilithium.K && !cands[i].zS; a++ {
						cands[i].zS = hasZero(s2u[a]) || hasZero(t0u[a])
					}
					for a := 0; a < dilithium.K && !cands[i].ok; a++ {
						for b := 0; b < 256; b++ {
							t := int(t1[a][b])<<13 + int(t0[a][b])
							if t > q/2 {
								t -= q
							}
							x := t - int(s2[a][b])
							if (t < 0) != (x < 0) {
								cands[i].ok = true
								break
							}
						}
					}
				}
			}()
		}
		wg.Wait()
		found := 0
		for i := 0; i < ntry && found < wantKeys; i++ {
			if !cands[i].ok {
				continue
			}
			found++
			d, _ := dilithium.NewDilithiumFromSeed(cands[i].seed)
			pk, sk := d.GetPK(), d.GetSK()
			tr.Emit(fix(dEvent{Ev: "keygen", Seed: ints(cands[i].seed[:]), Pk: ints(pk[:]), Sk: ints(sk[:]), Positions: positions(npos), Msg: []int{}, Class: "caddq-boundary"}))
		}
		extra["keygen_caddq_boundary_seeds"] = found
		// keys with an exact zero in the transform domain (matrix entry / secret vectors): key generation and
		// one signature each, recomputed completely
		zfound := map[string]int{}
		for _, kind := range []string{"zero-in-matrix", "zero-in-ntt-of-secret"} {
			lim := 1
			if tier == "thorough" {
				lim = 3
			}
			for i := 0; i < ntry && zfound[kind] < lim; i++ {
				if kind == "zero-in-matrix" && !cands[i].zA || kind == "zero-in-ntt-of-secret" && !cands[i].zS {
					continue
				}
				zfound[kind]++
				d, _ := dilithium.NewDilithiumFromSeed(cands[i].seed)
				pk, sk := d.GetPK(), d.GetSK()
				tr.Emit(fix(dEvent{Ev: "keygen", Seed: ints(cands[i].seed[:]), Pk: ints(pk[:]), Sk: ints(sk[:]), Positions: positions(npos), Msg: []int{}, Class: kind}))
				keyLine := tr.N
				msg := make([]byte, 1+r.Intn(60))
				r.Read(msg)
				light = false
				its = nil
				dilithium.VerifSignHook = c07Hook
				sig, err := d.Sign(msg)
				dilithium.VerifSignHook = nil
				if err != nil {
					panic(err)
				}
				tr.Emit(fix(dEvent{Ev: "sign", KeyLine: keyLine, Sk: ints(sk[:]), Msg: ints(msg), Sig: ints(sig[:]), Iters: its, Positions: positions(npos), Class: kind}))
				light = true
			}
		}
		extra["keygen_zero_in_transform_domain"] = zfound
	}
	// the challenge sampler's rejection loop: among millions of seeds (streams by the standard library) the
	// ones that consume the most stream bytes
	{
		ntry := 3000000
		if tier == "thorough" {
			ntry = 12000000
		}
		type best struct {
			c    [32]byte
			used int
		}
		nw := runtime.NumCPU()
		tops := make([][]best, nw)
		var wg sync.WaitGroup
		base := r.Int63()
		for w := 0; w < nw; w++ {
			w := w
			wg.Add(1)
			go func() {
				defer wg.Done()
				rr := rand.New(rand.NewSource(base + int64(w)))
				var c [32]byte
				for t := w; t < ntry; t += nw {
					rr.Read(c[:8])
					st, _ := oracle.Hash(oracle.SHAKE256_N, c[:], 136)
					pos := 8
					for i := 256 - 60; i < 256 && pos < len(st); i++ {
						for pos < len(st) && int(st[pos]) > i {
							pos++
						}
						pos++
					}
					if len(tops[w]) < 2 || pos > tops[w][len(tops[w])-1].used {
						tops[w] = append(tops[w], best{c, pos})
						sort.Slice(tops[w], func(a, b int) bool { return tops[w][a].used > tops[w][b].used })
						if len(tops[w]) > 2 {
							tops[w] = tops[w][:2]
						}
					}
				}
			}()
		}
		wg.Wait()
		var all []best
		for _, t := range tops {
			all = append(all, t...)
		}
		sort.Slice(all, func(a, b int) bool { return all[a].used > all[b].used })
		if len(all) > 4 {
			all = all[:4]
		}
		var used []int
		for _, b := range all {
			c := append([]byte{}, b.c[:]...)
			p := dilithium.VerifPolyChallenge(c)
			tr.Emit(fix(dEvent{Ev: "sampler", Kind: "challenge", Buf: ints(c), Out: i32s(p[:]), Msg: []int{}, Positions: [][]int{}, Class: "longest-rejection-runs"}))
			used = append(used, b.used)
		}
		extra["challenge_stream_bytes_used_max"] = used
	}
	nsamp := 3
	if tier == "thorough" {
		nsamp = 30
	}
	for s := 0; s < nsamp; s++ {
		c := make([]byte, 32)
		r.Read(c)
		if s == 0 {
			c = make([]byte, 32)
		}
		p := dilithium.VerifPolyChallenge(c)
		tr.Emit(fix(dEvent{Ev: "sampler", Kind: "challenge", Buf: ints(c), Out: i32s(p[:]), Msg: []int{}, Positions: [][]int{}}))
		var s64 [64]uint8
		r.Read(s64[:])
		nonce := uint16(r.Intn(65536))
		if s == 1 {
			nonce = 0xffff
		}
		g := dilithium.VerifPolyUniformGamma1(s64, nonce)
		tr.Emit(fix(dEvent{Ev: "sampler", Kind: "gamma1", Buf: ints(s64[:]), Out: i32s(g[:]), Ctr: int(nonce), Msg: []int{}, Positions: [][]int{}}))
		e := dilithium.VerifPolyUniformEta(&s64, nonce)
		tr.Emit(fix(dEvent{Ev: "sampler", Kind: "eta", Buf: ints(s64[:]), Out: i32s(e[:]), Ctr: int(nonce), Msg: []int{}, Positions: [][]int{}}))
		var s32 [32]uint8
		r.Read(s32[:])
		u := dilithium.VerifPolyUniform(&s32, nonce)
		tr.Emit(fix(dEvent{Ev: "sampler", Kind: "uniform", Buf: ints(s32[:]), Out: i32s(u[:]), Ctr: int(nonce), Msg: []int{}, Positions: [][]int{}}))
	}
	extra["iterations_histogram"] = iterHist
}
