// codecdrive drives the real mnemonic, descriptor and address code and the key
// constructors, and records traces for spec/TraceMnemonic.tla (C10),
// spec/TraceAddress.tla (C11) and spec/TraceRecover.tla (C09).
package main

import (
	crand "crypto/rand"
	"crypto/sha256"
	"encoding/hex"
	"errors"
	"flag"
	"fmt"
	"io"
	"math/rand"
	"os"
	"runtime"
	"strconv"
	"strings"
	"sync"
	"time"

	"github.com/theQRL/go-qrllib/common"
	"github.com/theQRL/go-qrllib/dilithium"
	"github.com/theQRL/go-qrllib/misc"
	"github.com/theQRL/go-qrllib/qrl"
	"github.com/theQRL/go-qrllib/xmss"
	"golang.org/x/crypto/sha3"

	"verifharness/trace"
)

func call(f func()) (res string) {
	defer func() {
		if r := recover(); r != nil {
			switch v := r.(type) {
			case string:
				res = "refused:" + v
			case runtime.Error:
				res = "runtime:" + v.Error()
			case error:
				res = "panic-error:" + v.Error()
			default:
				res = fmt.Sprintf("panic-other:%v", v)
			}
		}
	}()
	f()
	return "ok"
}

func ints(b []byte) []int {
	o := make([]int, len(b))
	for i, v := range b {
		o[i] = int(v)
	}
	return o
}

// flakyReader: an entropy source that delivers half of the first request and an error, then works
type flakyReader struct {
	real  io.Reader
	calls int
}

func (f *flakyReader) Read(p []byte) (int, error) {
	f.calls++
	if f.calls == 1 {
		n, _ := f.real.Read(p[:len(p)/2])
		return n, errors.New("interrupted")
	}
	return f.real.Read(p)
}

// validators never refuse: a panic inside one is noted and reported as its own event
var validatorPanics []string

func vGuard(name string, f func() bool) (ok bool) {
	defer func() {
		if r := recover(); r != nil {
			if len(validatorPanics) < 20 {
				validatorPanics = append(validatorPanics, name+": "+fmt.Sprint(r))
			}
			ok = false
		}
	}()
	return f()
}
func vX(a [20]uint8) bool {
	return vGuard("IsValidXMSSAddress", func() bool { return xmss.IsValidXMSSAddress(a) })
}
func vD(a [20]uint8) bool {
	return vGuard("IsValidDilithiumAddress", func() bool { return dilithium.IsValidDilithiumAddress(a) })
}
func vL(a [39]uint8) bool {
	return vGuard("IsValidLegacyXMSSAddress", func() bool { return xmss.IsValidLegacyXMSSAddress(a) })
}

func cps(s string) []int {
	o := []int{}
	for _, r := range s {
		o = append(o, int(r))
	}
	return o
}

func shake256(b []byte, n int) []byte {
	out := make([]byte, n)
	sha3.ShakeSum256(out, b)
	return out
}

// ---------------------------------------------------------------------------
// C10

type mnEvent struct {
	Ev     string `json:"ev"`
	Size   int    `json:"size"`
	Bytes  []int  `json:"bytes"`
	Phrase []int  `json:"phrase"`
	Res    string `json:"res"`
	Class  string `json:"class"`
	// block table segments
	Lo   int `json:"lo"`
	Hi   int `json:"hi"`
	W1   int `json:"w1"`
	W2Lo int `json:"w2lo"`
	B0   int `json:"b0"`
	B1   int `json:"b1"`
	B2Lo int `json:"b2lo"`
}

func encode(size int, b []byte) (string, string) {
	var p string
	res := call(func() {
		if size == 48 {
			var a [48]uint8
			copy(a[:], b)
			p = misc.SeedBinToMnemonic(a)
		} else {
			var a [51]uint8
			copy(a[:], b)
			p = misc.ExtendedSeedBinToMnemonic(a)
		}
	})
	return p, res
}

func decode(size int, p string) ([]byte, string) {
	var out []byte
	res := call(func() {
		if size == 48 {
			a := misc.MnemonicToSeedBin(p)
			out = a[:]
		} else {
			a := misc.MnemonicToExtendedSeedBin(p)
			out = a[:]
		}
	})
	return out, res
}

// wordsToBytes packs 12-bit values (harness-side construction of inputs only).
func wordsToBytes(ws []int) []byte {
	out := []byte{}
	for i := 0; i+1 < len(ws); i += 2 {
		a, b := ws[i], ws[i+1]
		out = append(out, byte(a>>4), byte((a&15)<<4|b>>8), byte(b))
	}
	return out
}

func mnemonic(r *rand.Rand, tier string, tr *trace.Buf, wordlistOut string) {
	// the real word list, as code points
	wl := make([][]int, len(qrl.WordList))
	for i, w := range qrl.WordList {
		wl[i] = cps(w)
	}
	trace.WriteJSON(wordlistOut, wl)
	tr.Emit(mnEvent{Ev: "wordlist", Bytes: []int{}, Phrase: []int{}, Class: "facts"})

	inList := map[string]bool{}
	for _, w := range qrl.WordList {
		inList[w] = true
	}
	emitEnc := func(size int, b []byte, class string) string {
		p, res := encode(size, b)
		tr.Emit(mnEvent{Ev: "enc", Size: size, Bytes: ints(b), Phrase: cps(p), Res: res, Class: class})
		return p
	}
	emitDec := func(size int, p string, class string) {
		b, res := decode(size, p)
		tr.Emit(mnEvent{Ev: "dec", Size: size, Bytes: ints(b), Phrase: cps(p), Res: res, Class: class})
	}
	// (1) every 12-bit value at every word position: phrase k has value (k + 97*p + off) mod 4096 at position p
	stride := 1
	if tier == "quick" {
		stride = 8
	}
	off := r.Intn(4096)
	for _, size := range []int{48, 51} {
		nw := size * 2 / 3
		for k := 0; k < 4096; k += stride {
			ws := make([]int, nw)
			for p := range ws {
				ws[p] = (k + 97*p + off) % 4096
			}
			b := wordsToBytes(ws)
			p := emitEnc(size, b, "latin-square")
			emitDec(size, p, "valid")
		}
		// extremes and random
		for _, fill := range []byte{0, 255, 0x0f, 0xf0} {
			b := make([]byte, size)
			for i := range b {
				b[i] = fill
			}
			emitDec(size, emitEnc(size, b, "fill"), "valid")
		}
		for q := 0; q < 64; q++ {
			b := make([]byte, size)
			r.Read(b)
			emitDec(size, emitEnc(size, b, "random"), "valid")
		}
	}
	// (1b) phrases of extreme length: every word the longest / the shortest of the list, and mixed
	{
		longest, shortest := 0, 0
		for i, w := range qrl.WordList {
			if len(w) > len(qrl.WordList[longest]) {
				longest = i
			}
			if len(w) < len(qrl.WordList[shortest]) {
				shortest = i
			}
		}
		var longs []int
		for i, w := range qrl.WordList {
			if len(w) >= len(qrl.WordList[longest])-1 {
				longs = append(longs, i)
			}
		}
		for _, size := range []int{48, 51} {
			nw := size * 2 / 3
			for variant := 0; variant < 4; variant++ {
				ws := make([]int, nw)
				for p := range ws {
					switch variant {
					case 0:
						ws[p] = longest
					case 1:
						ws[p] = shortest
					case 2:
						ws[p] = longs[r.Intn(len(longs))]
					case 3:
						ws[p] = []int{longest, shortest}[p%2]
					}
				}
				b := wordsToBytes(ws)
				emitDec(size, emitEnc(size, b, "extreme-word-lengths"), "valid")
			}
		}
	}
	// (2) malformed phrases
	for _, size := range []int{48, 51} {
		nw := size * 2 / 3
		other := 99 - size // 51 or 48
		for rep := 0; rep < 3; rep++ {
			b := make([]byte, size)
			r.Read(b)
			good, _ := encode(size, b)
			words := strings.Split(good, " ")
			mut := func(p int, w string) string {
				c := append([]string{}, words...)
				c[p] = w
				return strings.Join(c, " ")
			}
			positions := []int{0, 1, nw / 2, nw - 2, nw - 1, r.Intn(nw)}
			for _, p := range positions {
				w := words[p]
				emitDec(size, mut(p, "zzzzzzzz"), "unknown-word")
				// a list word with one letter changed into a non-word
				for tries := 0; tries < 50; tries++ {
					bs := []byte(w)
					bs[r.Intn(len(bs))] = byte('a' + r.Intn(26))
					if !inList[string(bs)] {
						emitDec(size, mut(p, string(bs)), "near-word")
						break
					}
				}
				emitDec(size, mut(p, strings.ToUpper(w)), "upper-word")
				// every single bit of every character of the word (case bit, high bits, neighbours in ASCII)
				for ci := 0; ci < len(w); ci++ {
					for bit := uint(0); bit < 8; bit++ {
						bs := []byte(w)
						bs[ci] ^= 1 << bit
						if !inList[string(bs)] && bs[ci] != ' ' {
							emitDec(size, mut(p, string(bs)), "char-bitflip")
						}
					}
				}
				// code points above 255 whose low byte is the expected letter (a decoder that narrows runes to bytes)
				for ci := 0; ci < len(w); ci++ {
					for _, hi := range []rune{0x100, 0x2000, 0xff00, 0x10000} {
						rs := []rune(w)
						rs[ci] += hi
						emitDec(size, mut(p, string(rs)), "char-high-codepoint")
					}
				}
				emitDec(size, mut(p, strings.ToUpper(w[:1])+w[1:]), "title-word")
				emitDec(size, mut(p, w+"\t"), "tab-in-word")
				emitDec(size, mut(p, w+"\n"), "newline-in-word")
				emitDec(size, mut(p, " "+w), "double-space")
				emitDec(size, mut(p, ""), "empty-word")
				emitDec(size, mut(p, w+" "), "nbsp")
			}
			emitDec(size, " "+good, "leading-space")
			emitDec(size, good+" ", "trailing-space")
			emitDec(size, good+"\n", "trailing-newline")
			emitDec(size, strings.ReplaceAll(good, " ", "\t"), "tab-separated")
			emitDec(size, strings.ReplaceAll(good, " ", "\n"), "newline-separated")
			emitDec(size, strings.ReplaceAll(good, " ", "  "), "all-double-spaces")
			emitDec(size, strings.ToUpper(good), "all-upper")
			emitDec(size, strings.Title(good), "all-title")
			for _, n := range []int{0, 1, 2, nw - 3, nw - 2, nw - 1, nw + 1, nw + 2, nw + 3} {
				var c []string
				for i := 0; i < n; i++ {
					c = append(c, qrl.WordList[r.Intn(4096)])
				}
				emitDec(size, strings.Join(c, " "), fmt.Sprintf("count-%d", n))
			}
			// the other size's phrase
			ob := make([]byte, other)
			r.Read(ob)
			op, _ := encode(other, ob)
			emitDec(size, op, "other-size")
			emitDec(size, "", "empty")
		}
	}
	// (3) one 3-byte block, all 2^24 values, through the length-generic codec
	if tier == "thorough" {
		blockTable(tr)
	}
}

// blockTable enumerates binToMnemonic / mnemonicToBin on every 3-byte block and
// emits the table compressed into maximal runs (lossless; re-expanded and
// compared before it is handed over).
func blockTable(tr *trace.Buf) {
	idx := map[string]int{}
	for i, w := range qrl.WordList {
		idx[w] = i
	}
	type seg struct{ lo, hi, w1, w2lo int }
	nw := runtime.NumCPU()
	per := (1 << 24) / nw
	segs := make([][]seg, nw)
	dsegs := make([][]seg, nw)
	var wg sync.WaitGroup
	for w := 0; w < nw; w++ {
		w := w
		wg.Add(1)
		go func() {
			defer wg.Done()
			lo, hi := w*per, (w+1)*per
			if w == nw-1 {
				hi = 1 << 24
			}
			var cur *seg
			var dcur *seg
			var row []byte
			for v := lo; v < hi; v++ {
				b := []byte{byte(v >> 16), byte(v >> 8), byte(v)}
				p := misc.VerifBinToMnemonic(b)
				ws := strings.Split(p, " ")
				w1, w2 := -1, -1
				if len(ws) == 2 {
					if i, ok := idx[ws[0]]; ok {
						w1 = i
					}
					if i, ok := idx[ws[1]]; ok {
						w2 = i
					}
				}
				if cur != nil && cur.w1 == w1 && cur.w2lo+(v-cur.lo) == w2 && w1 >= 0 && w2 >= 0 {
					cur.hi = v
				} else {
					segs[w] = append(segs[w], seg{v, v, w1, w2})
					cur = &segs[w][len(segs[w])-1]
				}
				// decode direction: word pair (v>>12, v&4095) -> bytes. mnemonicToBin rebuilds its 4096-entry
				// lookup on every call, so the 2^24 pairs are decoded 4096 at a time: one phrase
				// "w1 x0 w1 x1 .. w1 x4095" per first word (pairs inside a phrase), and on its own as a
				// two-word phrase (the codec's tail path) for every 509th pair and the ends of every run
				if v&4095 == 0 || row == nil {
					var sb strings.Builder
					for k := 0; k < 4096; k++ {
						if k > 0 {
							sb.WriteByte(' ')
						}
						sb.WriteString(qrl.WordList[v>>12])
						sb.WriteByte(' ')
						sb.WriteString(qrl.WordList[k])
					}
					row = misc.VerifMnemonicToBin(sb.String())
				}
				b0, b1, b2 := -1, -1, -1
				if k := v & 4095; len(row) == 3*4096 {
					b0, b1, b2 = int(row[3*k]), int(row[3*k+1]), int(row[3*k+2])
				}
				if v%509 == 0 || v&4095 == 0 || v&4095 == 4095 || v&255 == 0 || v&255 == 255 {
					d := misc.VerifMnemonicToBin(qrl.WordList[v>>12] + " " + qrl.WordList[v&4095])
					if len(d) != 3 || int(d[0]) != b0 || int(d[1]) != b1 || int(d[2]) != b2 {
						b0, b1, b2 = -1, -1, -1 // the two paths disagree: the entry is reported as undecodable
					}
				}
				key := b0<<8 | b1
				if dcur != nil && dcur.w1 == key && dcur.w2lo+(v-dcur.lo) == b2 && b0 >= 0 {
					dcur.hi = v
				} else {
					dsegs[w] = append(dsegs[w], seg{v, v, key, b2})
					dcur = &dsegs[w][len(dsegs[w])-1]
				}
			}
		}()
	}
	wg.Wait()
	for w := 0; w < nw; w++ {
		for _, s := range segs[w] {
			tr.Emit(mnEvent{Ev: "encblock", Bytes: []int{}, Phrase: []int{}, Lo: s.lo, Hi: s.hi, W1: s.w1, W2Lo: s.w2lo})
		}
	}
	for w := 0; w < nw; w++ {
		for _, s := range dsegs[w] {
			tr.Emit(mnEvent{Ev: "decblock", Bytes: []int{}, Phrase: []int{}, Lo: s.lo, Hi: s.hi, B0: s.w1 >> 8, B1: s.w1 & 255, B2Lo: s.w2lo})
		}
	}
}

// ---------------------------------------------------------------------------
// C11

type adEvent struct {
	Ev string `json:"ev"`
	// descriptor tables: one event per first byte b0, arrays indexed by b1
	B0     int     `json:"b0"`
	B2     int     `json:"b2"`
	Hf     []int   `json:"hf,omitempty"`
	Sig    []int   `json:"sig,omitempty"`
	Height []int   `json:"height,omitempty"`
	Af     []int   `json:"af,omitempty"`
	Back   [][]int `json:"back,omitempty"`
	Same   bool    `json:"same"`
	ValidX []bool  `json:"validX,omitempty"`
	ValidD []bool  `json:"validD,omitempty"`
	// constructor round trip: one event per (hf, sig), arrays indexed by height*16+af
	InHf  int     `json:"inhf"`
	InSig int     `json:"insig"`
	Enc   [][]int `json:"enc,omitempty"`
	Dec   [][]int `json:"dec,omitempty"`
	// addresses
	Scheme string `json:"scheme,omitempty"`
	Pk     []int  `json:"pk,omitempty"`
	PkD    string `json:"pkd,omitempty"`
	Shake  []int  `json:"shake,omitempty"`
	Sha    []int  `json:"sha,omitempty"`
	Sha35  []int  `json:"sha35,omitempty"`
	Addr   []int  `json:"addr,omitempty"`
	Res    string `json:"res,omitempty"`
	VX     bool   `json:"vx"`
	VD     bool   `json:"vd"`
	VL     bool   `json:"vl"`
	Class  string `json:"class,omitempty"`
	Src    string `json:"src,omitempty"`
}

func address(r *rand.Rand, tier string, tr *trace.Buf) {
	// (1) all 65536 (b0, b1) prefixes
	for _, b2 := range []int{0, 255, 1 + r.Intn(254)} {
		for b0 := 0; b0 < 256; b0++ {
			e := adEvent{Ev: "desctable", B0: b0, B2: b2}
			for b1 := 0; b1 < 256; b1++ {
				// a parser / validator that panics on some value is recorded as the impossible value -1 / as
				// "valid for both", which the specification rejects (parsing and validating never refuse)
				hfv, sgv, htv, afv, back := -1, -1, -1, -1, []int{-1, -1, -1}
				call(func() {
					d := xmss.NewQRLDescriptorFromBytes([]uint8{uint8(b0), uint8(b1), uint8(b2)})
					gb := d.GetBytes()
					hfv, sgv, htv, afv, back = int(d.GetHashFunction()), int(d.GetSignatureType()), int(d.GetHeight()), int(d.GetAddrFormatType()), ints(gb[:])
				})
				e.Hf = append(e.Hf, hfv)
				e.Sig = append(e.Sig, sgv)
				e.Height = append(e.Height, htv)
				e.Af = append(e.Af, afv)
				e.Back = append(e.Back, back)
				var a [20]uint8
				r.Read(a[:])
				a[0], a[1], a[2] = uint8(b0), uint8(b1), uint8(b2)
				vx, vd := true, true
				call(func() { vx = vX(a) })
				call(func() { vd = vD(a) })
				e.ValidX = append(e.ValidX, vx)
				e.ValidD = append(e.ValidD, vd)
			}
			tr.Emit(e)
		}
	}
	// (2) constructor -> bytes -> parse, all field values
	for hf := 0; hf < 16; hf++ {
		for sig := 0; sig < 16; sig++ {
			e := adEvent{Ev: "ctor", InHf: hf, InSig: sig}
			for height := 0; height < 32; height++ {
				for af := 0; af < 16; af++ {
					enc, dec := []int{-1, -1, -1}, []int{-1, -1, -1, -1}
					call(func() { // a constructor / parser that refuses a value shows up as the impossible -1
						d := xmss.NewQRLDescriptor(uint8(height), xmss.HashFunction(hf), common.SignatureType(sig), common.AddrFormatType(af))
						gb := d.GetBytes()
						enc = ints(gb[:])
						d2 := xmss.NewQRLDescriptorFromBytes(gb[:])
						dec = []int{int(d2.GetHashFunction()), int(d2.GetSignatureType()), int(d2.GetHeight()), int(d2.GetAddrFormatType())}
					})
					e.Enc = append(e.Enc, enc)
					e.Dec = append(e.Dec, dec)
				}
			}
			tr.Emit(e)
		}
	}
	// (2b) a parsed descriptor is a VALUE: overwriting the buffer it was parsed from does not change it
	for q := 0; q < 24; q++ {
		b := []uint8{uint8(r.Intn(256)), uint8(r.Intn(256)), uint8(r.Intn(256))}
		var epk [67]uint8
		r.Read(epk[:])
		snap := func(d *xmss.QRLDescriptor) []int {
			g := d.GetBytes()
			return []int{int(d.GetHashFunction()), int(d.GetSignatureType()), int(d.GetHeight()), int(d.GetAddrFormatType()), int(g[0]), int(g[1]), int(g[2])}
		}
		same := true
		before := [][]int{}
		if res := call(func() {
			var ds []*xmss.QRLDescriptor
			ds = append(ds, xmss.NewQRLDescriptorFromBytes(b), xmss.LegacyQRLDescriptorFromBytes(b),
				xmss.NewQRLDescriptorFromExtendedPK(&epk), xmss.LegacyQRLDescriptorFromExtendedPK(&epk))
			for _, d := range ds {
				before = append(before, snap(d))
			}
			for i := range b {
				b[i] ^= 0xff
			}
			for i := range epk {
				epk[i] ^= 0xff
			}
			for i, d := range ds {
				a := snap(d)
				for k := range a {
					if a[k] != before[i][k] {
						same = false
					}
				}
			}
		}); res != "ok" {
			same = false // a parser that panics on some bytes: reported through the same verdict path
		}
		tr.Emit(adEvent{Ev: "alias", Same: same, Dec: before})
	}
	// (3) address derivation
	emitX := func(pk [67]uint8, class string) {
		var addr [20]uint8
		res := call(func() { addr = xmss.GetXMSSAddressFromPK(pk) })
		e := adEvent{Ev: "xaddr", Pk: ints(pk[:]), Shake: ints(shake256(pk[:], 32)), Res: res, Class: class}
		if res == "ok" {
			e.Addr = ints(addr[:])
			e.VX = vX(addr)
			e.VD = vD(addr)
		}
		tr.Emit(e)
		// legacy
		var la [39]uint8
		res = call(func() { la = xmss.GetLegacyXMSSAddressFromPK(pk) })
		sp := sha256.Sum256(pk[:])
		l := adEvent{Ev: "laddr", Pk: ints(pk[:]), Sha: ints(sp[:]), Res: res, Class: class}
		if res == "ok" {
			s35 := sha256.Sum256(la[:35])
			l.Addr = ints(la[:])
			l.Sha35 = ints(s35[:])
			l.VL = vL(la)
		}
		tr.Emit(l)
	}
	nkeys := 2
	nrand := 200
	if tier == "thorough" {
		nkeys = 6
		nrand = 3000
	}
	var realPKs [][67]uint8
	for _, h := range []uint8{4, 6} {
		for hf := 0; hf < 3; hf++ {
			for q := 0; q < nkeys/2; q++ {
				var seed [48]uint8
				r.Read(seed[:])
				x := xmss.NewXMSSFromSeed(seed, h, xmss.HashFunction(hf), common.SHA256_2X)
				pk := x.GetPK()
				realPKs = append(realPKs, pk)
				emitX(pk, "real-key")
				// the object's own getters, also for objects constructed with an address format the library
				// does not support (the constructors accept every nibble; the derivation must refuse it exactly
				// like the function on the public key does)
				for _, af := range []int{0, 1, 2 + r.Intn(13), 15} {
					xo := x
					if af != 0 {
						xo = xmss.NewXMSSFromSeed(seed, h, xmss.HashFunction(hf), common.AddrFormatType(af))
					}
					opk := xo.GetPK()
					var a [20]uint8
					var la [39]uint8
					ra := call(func() { a = xo.GetAddress() })
					rl := call(func() { la = xo.GetLegacyAddress() })
					ea := adEvent{Ev: "xaddr", Pk: ints(opk[:]), Shake: ints(shake256(opk[:], 32)), Res: ra, Class: "object-getter"}
					if ra == "ok" {
						ea.Addr = ints(a[:])
						ea.VX = vX(a)
						ea.VD = vD(a)
					}
					tr.Emit(ea)
					sp := sha256.Sum256(opk[:])
					el := adEvent{Ev: "laddr", Pk: ints(opk[:]), Sha: ints(sp[:]), Res: rl, Class: "object-getter"}
					if rl == "ok" {
						s35 := sha256.Sum256(la[:35])
						el.Addr = ints(la[:])
						el.Sha35 = ints(s35[:])
						el.VL = vL(la)
					}
					tr.Emit(el)
				}
			}
		}
	}
	for q := 0; q < nrand; q++ {
		var pk [67]uint8
		r.Read(pk[:])
		switch q % 4 {
		case 0: // arbitrary descriptor
		case 1: // supported descriptor
			pk[0] = uint8(r.Intn(3))
			pk[1] = uint8(2 + r.Intn(14))
		case 2: // xmss, address format varies
			pk[0] = uint8(r.Intn(16))
		case 3:
			pk[1] &= 0x0f
		}
		emitX(pk, "random-pk")
	}
	// Dilithium
	nd := 4
	if tier == "thorough" {
		nd = 40
	}
	for q := 0; q < nd; q++ {
		var seed [48]uint8
		r.Read(seed[:])
		d, err := dilithium.NewDilithiumFromSeed(seed)
		if err != nil {
			fmt.Fprintln(os.Stderr, err)
			os.Exit(2)
		}
		pk := d.GetPK()
		for _, src := range []string{"function", "object-getter"} {
			var a [20]uint8
			if src == "function" {
				a = dilithium.GetDilithiumAddressFromPK(pk)
			} else {
				a = d.GetAddress()
			}
			dg := sha256.Sum256(pk[:])
			tr.Emit(adEvent{Ev: "daddr", PkD: hex.EncodeToString(dg[:8]), Shake: ints(shake256(pk[:], 32)), Addr: ints(a[:]), Res: "ok",
				VX: vX(a), VD: vD(a), Src: src})
		}
	}
	for q := 0; q < nrand; q++ { // arbitrary Dilithium-sized public keys
		var pk [dilithium.CryptoPublicKeyBytes]uint8
		r.Read(pk[:])
		a := dilithium.GetDilithiumAddressFromPK(pk)
		dg := sha256.Sum256(pk[:])
		tr.Emit(adEvent{Ev: "daddr", PkD: hex.EncodeToString(dg[:8]), Shake: ints(shake256(pk[:], 32)), Addr: ints(a[:]), Res: "ok",
			VX: vX(a), VD: vD(a), Src: "random-pk"})
	}
	// (4) legacy validity: valid addresses, each of their bit flips, random strings
	emitL := func(a [39]uint8, class string) {
		s35 := sha256.Sum256(a[:35])
		tr.Emit(adEvent{Ev: "lvalid", Addr: ints(a[:]), Sha35: ints(s35[:]), VL: vL(a), Class: class})
	}
	for i, pk := range realPKs {
		if i >= 2 && tier == "quick" {
			break
		}
		la := xmss.GetLegacyXMSSAddressFromPK(pk)
		emitL(la, "valid")
		for bit := 0; bit < 39*8; bit++ {
			m := la
			m[bit/8] ^= 1 << uint(bit%8)
			emitL(m, "bitflip")
		}
		// compensating changes of two checksum bytes (a checksum compared through a sum, xor or fold
		// would accept some of them), swaps and rotations of the checksum bytes
		for a := 35; a < 39; a++ {
			for b := a + 1; b < 39; b++ {
				for _, d := range []uint8{1, 2, 0x10, 0x80, 0xff} {
					m := la
					m[a] += d
					m[b] -= d
					emitL(m, "checksum-plus-minus")
					m = la
					m[a] ^= d
					m[b] ^= d
					emitL(m, "checksum-xor-xor")
				}
				m := la
				m[a], m[b] = m[b], m[a]
				emitL(m, "checksum-swap")
			}
		}
		{
			m := la
			m[35], m[36], m[37], m[38] = la[36], la[37], la[38], la[35]
			emitL(m, "checksum-rotated")
			m = la
			m[35], m[36], m[37], m[38] = la[38], la[37], la[36], la[35]
			emitL(m, "checksum-reversed")
		}
	}
	for q := 0; q < nrand; q++ {
		var a [39]uint8
		r.Read(a[:])
		if q%2 == 0 {
			a[1] &= 0x0f
		}
		if q%4 == 0 { // correct checksum over random content
			s := sha256.Sum256(a[:35])
			copy(a[35:], s[28:])
		}
		emitL(a, "random")
	}
	for _, n := range validatorPanics {
		tr.Emit(adEvent{Ev: "vpanic", Res: n})
	}
}

// ---------------------------------------------------------------------------
// C09

type rcEvent struct {
	Ev     string `json:"ev"`
	Scheme string `json:"scheme"`
	Route  string `json:"route"`
	H      int    `json:"h"`
	Hf     int    `json:"hf"`
	Fresh  bool   `json:"fresh"`
	Res    string `json:"res"`
	Seed   []int  `json:"seed,omitempty"`
	Ext    []int  `json:"ext,omitempty"`
	Mn     []int  `json:"mn,omitempty"`
	Hex    []int  `json:"hex,omitempty"`
	// digests of the original and of the re-created key
	Pk0   string   `json:"pk0"`
	Pk1   string   `json:"pk1"`
	Addr0 string   `json:"addr0"`
	Addr1 string   `json:"addr1"`
	Sk0   string   `json:"sk0"`
	Sk1   string   `json:"sk1"`
	Sig0  string   `json:"sig0"`
	Sig1  string   `json:"sig1"`
	SigJ0 string   `json:"sigj0"`
	SigJ1 string   `json:"sigj1"`
	Seed0 string   `json:"seed0"`
	Seed1 string   `json:"seed1"`
	Sigs0 []string `json:"sigs0,omitempty"`
	Sigs1 []string `json:"sigs1,omitempty"`
	// descriptor-only path
	DescH  int `json:"desch"`
	DescHf int `json:"deschf"`
	DescS  int `json:"descs"`
	DescA  int `json:"desca"`
}

func dg(b []byte) string { h := sha256.Sum256(b); return hex.EncodeToString(h[:10]) }

func xmssIdentity(x *xmss.XMSS, jump uint32) (pk, addr, sk, sig0, sigj, seed string) {
	p := x.GetPK()
	a := x.GetAddress()
	s := x.GetSeed()
	pk, addr, seed = dg(p[:]), dg(a[:]), dg(s[:])
	sk = dg(x.GetSK())
	c := xmss.VerifClone(x)
	g, err := c.Sign([]byte("recover-0"))
	if err != nil {
		g = nil
	}
	sig0 = dg(g)
	c.SetIndex(jump)
	g, err = c.Sign([]byte("recover-j"))
	if err != nil {
		g = nil
	}
	sigj = dg(g)
	return
}

func recoverDrive(r *rand.Rand, tier string, tr *trace.Buf) {
	heights := []int{4, 6}
	reps := 1
	if tier == "thorough" {
		heights = []int{4, 6, 8}
		reps = 3
	}
	for _, h := range heights {
		for hf := 0; hf < 3; hf++ {
			for rep := 0; rep < reps; rep++ {
				for _, fresh := range []bool{false, true} {
					var x *xmss.XMSS
					if fresh && rep%2 == 1 {
						orig := crand.Reader
						crand.Reader = &flakyReader{real: orig}
						for try := 0; try < 3 && x == nil; try++ {
							call(func() { x = xmss.NewXMSSFromHeight(uint8(h), xmss.HashFunction(hf)) })
						}
						crand.Reader = orig
					} else if fresh {
						x = xmss.NewXMSSFromHeight(uint8(h), xmss.HashFunction(hf))
					} else {
						var seed [48]uint8
						r.Read(seed[:])
						if rep == 0 && hf < 2 { // extreme seeds: every 12-bit group 0xfff (the last word of the list) / 0x000
							for i := range seed {
								seed[i] = byte(0xff * (1 - hf))
							}
						}
						x = xmss.NewXMSSFromSeed(seed, uint8(h), xmss.HashFunction(hf), common.SHA256_2X)
					}
					jump := uint32(1 + r.Intn((1<<uint(h))-1))
					pk0, a0, sk0, s0, sj0, sd0 := xmssIdentity(x, jump)
					ext := x.GetExtendedSeed()
					seed := x.GetSeed()
					mn := x.GetMnemonic()
					hexs := x.GetHexSeed()
					routes := []string{"extseed", "mnemonic", "hexseed", "seed+params"}
					for _, route := range routes {
						var y *xmss.XMSS
						res := call(func() {
							switch route {
							case "extseed":
								y = xmss.NewXMSSFromExtendedSeed(ext)
							case "mnemonic":
								y = xmss.NewXMSSFromExtendedSeed(misc.MnemonicToExtendedSeedBin(mn))
							case "hexseed":
								raw, err := hex.DecodeString(strings.TrimPrefix(hexs, "0x"))
								if err != nil || len(raw) != 51 {
									panic("hexseed not decodable")
								}
								var e [51]uint8
								copy(e[:], raw)
								y = xmss.NewXMSSFromExtendedSeed(e)
							case "seed+params":
								y = xmss.NewXMSSFromSeed(seed, uint8(h), xmss.HashFunction(hf), common.SHA256_2X)
							}
						})
						e := rcEvent{Ev: "recover", Scheme: "xmss", Route: route, H: h, Hf: hf, Fresh: fresh, Res: res,
							Seed: ints(seed[:]), Ext: ints(ext[:]), Mn: cps(mn), Hex: cps(hexs),
							Pk0: pk0, Addr0: a0, Sk0: sk0, Sig0: s0, SigJ0: sj0, Seed0: sd0}
						if res == "ok" {
							e.Pk1, e.Addr1, e.Sk1, e.Sig1, e.SigJ1, e.Seed1 = xmssIdentity(y, jump)
						}
						tr.Emit(e)
					}
				}
			}
		}
	}
	// taller trees (synthetic leaves): original and re-created object live in the SAME process and sign
	// alternately; the first signatures of both must be identical
	{
		xmss.VerifLeafHook = func(hf xmss.HashFunction, leaf []uint8, idx uint32) bool {
			b := []byte{byte(idx), byte(idx >> 8), byte(idx >> 16), 0x3c, byte(hf)}
			for i := range leaf {
				leaf[i] = b[i%5] ^ byte(i*13)
			}
			return true
		}
		ths := []int{12}
		if tier == "thorough" {
			ths = []int{10, 12, 14, 16}
		}
		for _, h := range ths {
			for _, route := range []string{"extseed", "mnemonic"} {
				var seed [48]uint8
				r.Read(seed[:])
				hf := r.Intn(3)
				x := xmss.NewXMSSFromSeed(seed, uint8(h), xmss.HashFunction(hf), common.SHA256_2X)
				var y *xmss.XMSS
				res := call(func() {
					if route == "extseed" {
						y = xmss.NewXMSSFromExtendedSeed(x.GetExtendedSeed())
					} else {
						y = xmss.NewXMSSFromExtendedSeed(misc.MnemonicToExtendedSeedBin(x.GetMnemonic()))
					}
				})
				e := rcEvent{Ev: "recovertall", Scheme: "xmss", Route: route, H: h, Hf: hf, Res: res}
				if res == "ok" {
					p0, p1 := x.GetPK(), y.GetPK()
					e.Pk0, e.Pk1 = dg(p0[:]), dg(p1[:])
					for q := 0; q < 6; q++ { // alternately: original, then the re-created one
						m := []byte("tall-" + string(rune('a'+q)))
						g0, _ := x.Sign(m)
						g1, _ := y.Sign(m)
						e.Sigs0 = append(e.Sigs0, dg(g0))
						e.Sigs1 = append(e.Sigs1, dg(g1))
					}
					// the original SIGNS its way across an index that ends in 0xff and to its last leaf, the
					// re-created wallet is FAST-FORWARDED there (SetIndex): same signatures from there on
					n := 1 << uint(h)
					cmp := func(xFrom, yAt, upto int) {
						res2 := call(func() {
							x.SetIndex(uint32(xFrom))
							var xs [][]byte
							for i := xFrom; i <= upto; i++ {
								g, err := x.Sign([]byte("ff-" + strconv.Itoa(i)))
								if err != nil {
									g = []byte("error:" + err.Error())
								}
								xs = append(xs, g)
							}
							y.SetIndex(uint32(yAt))
							for i := yAt; i <= upto; i++ {
								g, err := y.Sign([]byte("ff-" + strconv.Itoa(i)))
								if err != nil {
									g = []byte("error:" + err.Error())
								}
								e.Sigs0 = append(e.Sigs0, dg(xs[i-xFrom]))
								e.Sigs1 = append(e.Sigs1, dg(g))
							}
						})
						if res2 != "ok" {
							e.Res = res2
						}
					}
					cmp(253, 255, 258)
					cmp(n-3, n-1, n-1)
				}
				tr.Emit(e)
			}
		}
		xmss.VerifLeafHook = nil
	}
	// descriptor-only path for the heights no key can be built for here
	for h := 0; h <= 30; h += 2 {
		for hf := 0; hf < 3; hf++ {
			var seed [48]uint8
			r.Read(seed[:])
			d := xmss.NewQRLDescriptor(uint8(h), xmss.HashFunction(hf), common.XMSSSig, common.SHA256_2X)
			db := d.GetBytes()
			var ext [51]uint8
			copy(ext[:3], db[:])
			copy(ext[3:], seed[:])
			for _, route := range []string{"extseed", "mnemonic"} {
				e2 := ext
				res := "ok"
				if route == "mnemonic" {
					res = call(func() { e2 = misc.MnemonicToExtendedSeedBin(misc.ExtendedSeedBinToMnemonic(ext)) })
				}
				d2 := xmss.NewQRLDescriptorFromExtendedSeed(e2)
				tr.Emit(rcEvent{Ev: "descpath", Scheme: "xmss", Route: route, H: h, Hf: hf, Res: res, Seed: ints(seed[:]), Ext: ints(e2[:]),
					DescH: int(d2.GetHeight()), DescHf: int(d2.GetHashFunction()), DescS: int(d2.GetSignatureType()), DescA: int(d2.GetAddrFormatType())})
			}
		}
	}
	// Dilithium
	nd := 6
	if tier == "thorough" {
		nd = 40
	}
	// after the nd sampled keys: 128 keys whose seeds together contain EVERY word of the list (seed k holds the
	// 12-bit groups 32k .. 32k+31), re-created from their mnemonic
	const cover = 128
	for q := 0; q < nd+cover; q++ {
		fresh := q%2 == 1 && q < nd
		var d *dilithium.Dilithium
		var err error
		if q >= nd {
			ws := make([]int, 32)
			for j := range ws {
				ws[j] = 32*(q-nd) + j
			}
			var seed [48]uint8
			copy(seed[:], wordsToBytes(ws))
			d, err = dilithium.NewDilithiumFromSeed(seed)
		} else if fresh && q%4 == 3 {
			// the entropy source fails once (some bytes, then an error) and works afterwards; the caller asks
			// again until it gets a key: whatever key it gets must be recoverable from what it exports
			orig := crand.Reader
			crand.Reader = &flakyReader{real: orig}
			for try := 0; try < 3 && d == nil; try++ {
				d, err = dilithium.New()
			}
			crand.Reader = orig
		} else if fresh {
			d, err = dilithium.New()
		} else {
			var seed [48]uint8
			r.Read(seed[:])
			if q == 0 || q == 2 {
				for i := range seed {
					seed[i] = byte(0xff * (1 - q/2))
				}
			}
			if q == 4 { // leading zero bytes, the rest arbitrary (a seed is 48 bytes, not a number)
				seed[0], seed[1] = 0, 0
			}
			d, err = dilithium.NewDilithiumFromSeed(seed)
		}
		if err != nil {
			fmt.Fprintln(os.Stderr, err)
			os.Exit(2)
		}
		ident := func(k *dilithium.Dilithium) (string, string, string, string, string, string) {
			pk := k.GetPK()
			sk := k.GetSK()
			a := k.GetAddress()
			s := k.GetSeed()
			g, _ := k.Sign([]byte("recover-0"))
			sl, _ := k.Seal([]byte("recover-j"))
			return dg(pk[:]), dg(a[:]), dg(sk[:]), dg(g[:]), dg(sl), dg(s[:])
		}
		pk0, a0, sk0, s0, sj0, sd0 := ident(d)
		seed := d.GetSeed()
		hexs := d.GetHexSeed()
		mn := d.GetMnemonic()
		routes := []string{"seed", "hexseed", "mnemonic"}
		if q >= nd {
			routes = []string{"mnemonic"}
		}
		for _, route := range routes {
			var y *dilithium.Dilithium
			res := call(func() {
				var e error
				switch route {
				case "seed":
					y, e = dilithium.NewDilithiumFromSeed(seed)
				case "hexseed":
					y, e = dilithium.NewDilithiumFromHexSeed(strings.TrimPrefix(hexs, "0x"))
				case "mnemonic":
					y, e = dilithium.NewDilithiumFromMnemonic(mn)
				}
				if e != nil {
					panic(e.Error())
				}
			})
			e := rcEvent{Ev: "recover", Scheme: "dilithium", Route: route, Fresh: fresh, Res: res, Seed: ints(seed[:]), Mn: cps(mn), Hex: cps(hexs),
				Pk0: pk0, Addr0: a0, Sk0: sk0, Sig0: s0, SigJ0: sj0, Seed0: sd0}
			if res == "ok" {
				e.Pk1, e.Addr1, e.Sk1, e.Sig1, e.SigJ1, e.Seed1 = ident(y)
			}
			tr.Emit(e)
		}
	}
}

func main() {
	prop := flag.String("prop", "C10", "C10 | C11 | C09")
	tier := flag.String("tier", "quick", "quick | thorough")
	seed := flag.Int64("seed", 1, "VERIF_SEED")
	out := flag.String("out", "", "trace file")
	wl := flag.String("wordlist", "", "word list dump (C10, C09)")
	statsOut := flag.String("stats", "", "stats json")
	flag.Parse()
	t0 := time.Now()
	r := rand.New(rand.NewSource(*seed*104729 + int64(len(*prop))))
	tr := &trace.Buf{}
	switch *prop {
	case "C10":
		mnemonic(r, *tier, tr, *wl)
	case "C11":
		address(r, *tier, tr)
	case "C09":
		wlv := make([][]int, len(qrl.WordList))
		for i, w := range qrl.WordList {
			wlv[i] = cps(w)
		}
		trace.WriteJSON(*wl, wlv)
		recoverDrive(r, *tier, tr)
	default:
		fmt.Fprintln(os.Stderr, "unknown prop")
		os.Exit(2)
	}
	if err := tr.WriteFile(*out); err != nil {
		fmt.Fprintln(os.Stderr, err)
		os.Exit(2)
	}
	if *statsOut != "" {
		trace.WriteJSON(*statsOut, map[string]interface{}{"events": tr.N, "wall_s": time.Since(t0).Seconds()})
	}
}
