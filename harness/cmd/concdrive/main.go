// concdrive runs a seeded workload of go-qrllib calls first sequentially (the
// oracle) and then on N goroutines, and records the history for
// spec/TraceConcurrent.tla (C15). Build it with -race.
package main

import (
	"crypto/sha256"
	"encoding/hex"
	"encoding/json"
	"flag"
	"fmt"
	"math/rand"
	"os"
	"runtime"
	"strconv"
	"strings"
	"sync"
	"time"

	"github.com/theQRL/go-qrllib/common"
	"github.com/theQRL/go-qrllib/dilithium"
	"github.com/theQRL/go-qrllib/misc"
	"github.com/theQRL/go-qrllib/xmss"

	"verifharness/pathkey"
	"verifharness/trace"
)

type event struct {
	Ev     string `json:"ev"`
	G      int    `json:"g"`
	N      int    `json:"n"`
	Op     string `json:"op"`
	Res    string `json:"res"`
	SigIdx int    `json:"sigidx"`
	Gmp    int    `json:"gomaxprocs,omitempty"`
	NG     int    `json:"goroutines,omitempty"`
}

func dg(parts ...[]byte) string {
	h := sha256.New()
	for _, p := range parts {
		h.Write(p)
		h.Write([]byte{0xfe})
	}
	return hex.EncodeToString(h.Sum(nil)[:10])
}

func safe(f func() string) (res string) {
	defer func() {
		if r := recover(); r != nil {
			res = fmt.Sprintf("panic:%v", r)
		}
	}()
	return f()
}

type op struct {
	id  string
	run func() string
}

// material shared by all goroutines (read-only by contract of the library)
type shared struct {
	dk          *dilithium.Dilithium
	DSeed       [48]uint8
	dpk         [dilithium.CryptoPublicKeyBytes]uint8
	dsig        [dilithium.CryptoBytes]uint8
	Dpk         []byte
	Dsig        []byte
	dmsg        []byte
	Dsealed     []byte
	xpk         [3][67]uint8
	Xpk         [3][]byte
	Xsig        [3][]byte
	xmsg        []byte
	ManyPk      [][]byte
	ManySig     [][]byte
	Seeds       [][48]uint8
	Mnemonics   []string
	ExtMnemonic []string
	// valid (message, signature, public key) triples of one-path XMSS keys: heights 4..30, indices with
	// non-zero bytes at every position of the 4-byte index field, the three hash functions
	PathMsg [][]byte
	PathSig [][]byte
	PathPk  [][]byte
}

// load restores the material written by the sequential phase WITHOUT calling into the
// library (except for the one key generation the shared Dilithium object needs), so that
// the goroutines are the first callers of everything else in this process.
func load(path string) *shared {
	raw, err := os.ReadFile(path)
	if err != nil {
		fmt.Fprintln(os.Stderr, err)
		os.Exit(2)
	}
	s := &shared{}
	if err := json.Unmarshal(raw, s); err != nil {
		fmt.Fprintln(os.Stderr, err)
		os.Exit(2)
	}
	s.finish()
	s.dk, _ = dilithium.NewDilithiumFromSeed(s.DSeed)
	return s
}

func (s *shared) finish() {
	s.dmsg = []byte("concurrent dilithium message")
	s.xmsg = []byte("concurrent xmss message")
	copy(s.dpk[:], s.Dpk)
	copy(s.dsig[:], s.Dsig)
	for i := 0; i < 3; i++ {
		copy(s.xpk[i][:], s.Xpk[i])
	}
}

func buildShared(r *rand.Rand) *shared {
	s := &shared{}
	var seed [48]uint8
	r.Read(s.DSeed[:])
	s.dk, _ = dilithium.NewDilithiumFromSeed(s.DSeed)
	pk := s.dk.GetPK()
	s.Dpk = pk[:]
	msg := []byte("concurrent dilithium message")
	sig, _ := s.dk.Sign(msg)
	s.Dsig = sig[:]
	s.Dsealed, _ = s.dk.Seal(msg)
	for hf := 0; hf < 3; hf++ {
		r.Read(seed[:])
		x := xmss.NewXMSSFromSeed(seed, 4, xmss.HashFunction(hf), common.SHA256_2X)
		x.SetIndex(uint32(r.Intn(15)))
		s.Xsig[hf], _ = x.Sign([]byte("concurrent xmss message"))
		p := x.GetPK()
		s.Xpk[hf] = p[:]
	}
	for i := 0; i < 24; i++ { // more distinct Dilithium keys than any plausible cache has slots
		var sd [48]uint8
		r.Read(sd[:])
		k, _ := dilithium.NewDilithiumFromSeed(sd)
		pk := k.GetPK()
		sg, _ := k.Sign(msg)
		s.ManyPk = append(s.ManyPk, append([]byte{}, pk[:]...))
		s.ManySig = append(s.ManySig, append([]byte{}, sg[:]...))
	}
	for i := 0; i < 8; i++ {
		var sd [48]uint8
		r.Read(sd[:])
		s.Seeds = append(s.Seeds, sd)
		s.Mnemonics = append(s.Mnemonics, misc.SeedBinToMnemonic(sd))
		var e [51]uint8
		r.Read(e[:])
		s.ExtMnemonic = append(s.ExtMnemonic, misc.ExtendedSeedBinToMnemonic(e))
	}
	for i, hx := range [][2]int{{4, 3}, {10, 700}, {12, 4095}, {18, 70000}, {20, 1<<20 - 1}, {26, 1<<25 + 257}, {30, 1<<30 - 1}, {6, 0}, {16, 65535}} {
		t := pathkey.Make(r, hx[0], i%3, uint32(hx[1]), hx[0], 1+r.Intn(40))
		s.PathMsg = append(s.PathMsg, t.Msg)
		s.PathSig = append(s.PathSig, t.Sig)
		s.PathPk = append(s.PathPk, append([]byte{}, t.Pk[:]...))
	}
	s.finish()
	return s
}

// statelessOps: the pool of calls whose result must not depend on anything but the arguments
func statelessOps(s *shared, r *rand.Rand) []op {
	var ops []op
	add := func(id string, f func() string) { ops = append(ops, op{id, func() string { return safe(f) }}) }
	for hf := 0; hf < 3; hf++ {
		hf := hf
		add("xverify-ok-"+strconv.Itoa(hf), func() string { return strconv.FormatBool(xmss.Verify(s.xmsg, s.Xsig[hf], s.xpk[hf])) })
		bad := append([]byte{}, s.Xsig[hf]...)
		bad[100+hf] ^= 1
		add("xverify-bad-"+strconv.Itoa(hf), func() string { return strconv.FormatBool(xmss.Verify(s.xmsg, bad, s.xpk[hf])) })
		add("xaddr-"+strconv.Itoa(hf), func() string { a := xmss.GetXMSSAddressFromPK(s.xpk[hf]); return dg(a[:]) })
		add("xladdr-"+strconv.Itoa(hf), func() string { a := xmss.GetLegacyXMSSAddressFromPK(s.xpk[hf]); return dg(a[:]) })
		add("xvalid-"+strconv.Itoa(hf), func() string {
			a := xmss.GetXMSSAddressFromPK(s.xpk[hf])
			return strconv.FormatBool(xmss.IsValidXMSSAddress(a)) + strconv.FormatBool(dilithium.IsValidDilithiumAddress(a))
		})
		add("xlvalid-"+strconv.Itoa(hf), func() string {
			a := xmss.GetLegacyXMSSAddressFromPK(s.xpk[hf])
			return strconv.FormatBool(xmss.IsValidLegacyXMSSAddress(a))
		})
		add("desc-"+strconv.Itoa(hf), func() string {
			d := xmss.NewQRLDescriptorFromExtendedPK(&s.xpk[hf])
			b := d.GetBytes()
			return dg(b[:], []byte{byte(d.GetHeight()), byte(d.GetHashFunction())})
		})
	}
	for i := range s.ManyPk {
		i := i
		add("dverify-key-"+strconv.Itoa(i), func() string {
			var pk [dilithium.CryptoPublicKeyBytes]uint8
			var sg [dilithium.CryptoBytes]uint8
			copy(pk[:], s.ManyPk[i])
			copy(sg[:], s.ManySig[i])
			return strconv.FormatBool(dilithium.Verify(s.dmsg, sg, &pk))
		})
	}
	// other Winternitz parameters through the custom entry point, also values that are not powers of two
	// (NewWOTSParams accepts them): whatever they answer, the calls around them must not be affected
	for _, w := range []uint32{4, 256, 5, 17, 31, 257} {
		w := w
		add("xverify-w"+strconv.Itoa(int(w)), func() string {
			return strconv.FormatBool(xmss.VerifyWithCustomWOTSParamW(s.xmsg, s.Xsig[1], s.xpk[1], w))
		})
	}
	// one-path keys: other heights, large indices
	for i := range s.PathSig {
		i := i
		var pk [67]uint8
		copy(pk[:], s.PathPk[i])
		add("xverify-path-"+strconv.Itoa(i), func() string { return strconv.FormatBool(xmss.Verify(s.PathMsg[i], s.PathSig[i], pk)) })
		add("xverify-path-w16-"+strconv.Itoa(i), func() string {
			return strconv.FormatBool(xmss.VerifyWithCustomWOTSParamW(s.PathMsg[i], s.PathSig[i], pk, 16))
		})
	}
	// descriptor parsing over many values (every height nibble, hash ids, formats), from bytes and from keys
	for b0 := 0; b0 < 256; b0 += 17 {
		b0 := b0
		add("desc-bytes-"+strconv.Itoa(b0), func() string {
			var out []byte
			for b1 := 0; b1 < 256; b1 += 5 {
				d := xmss.NewQRLDescriptorFromBytes([]uint8{uint8(b0), uint8(b1), uint8(b1 ^ b0)})
				g := d.GetBytes()
				out = append(out, byte(d.GetHeight()), byte(d.GetHashFunction()), byte(d.GetSignatureType()), byte(d.GetAddrFormatType()), g[0], g[1], g[2])
				var ep [67]uint8
				ep[0], ep[1], ep[2] = uint8(b1), uint8(b0), 7
				d2 := xmss.NewQRLDescriptorFromExtendedPK(&ep)
				out = append(out, byte(d2.GetHeight()), byte(d2.GetHashFunction()))
				var es [51]uint8
				es[0], es[1] = uint8(b0), uint8(b1)
				d3 := xmss.NewQRLDescriptorFromExtendedSeed(es)
				out = append(out, byte(d3.GetHeight()), byte(d3.GetHashFunction()))
			}
			return dg(out)
		})
	}
	// mnemonic decoding of phrases with one unknown / near-miss token (refused), twice in a row in one call site
	for i, bad := range []string{"arraq", "absorbs", "zzzz", "aback", "Abandon", "zoo", "", "a"} {
		i, bad := i, bad
		add("mn-unknown-"+strconv.Itoa(i), func() string {
			ws := strings.Fields(s.Mnemonics[i%len(s.Mnemonics)])
			ws[(i*5)%len(ws)] = bad
			b := misc.MnemonicToSeedBin(strings.Join(ws, " "))
			return dg(b[:])
		})
	}
	// the exported helpers of misc: hash wrappers with output buffers shorter / longer than the digest,
	// byte-order helpers, hash-address setters (pure functions of their arguments)
	for _, n := range []int{0, 1, 16, 31, 32, 33, 64, 200} {
		n := n
		hm := make([]byte, 10+n)
		r.Read(hm)
		add("misc-sha256-"+strconv.Itoa(n), func() string { o := make([]byte, n); return dg(misc.SHA256(o, hm), o) })
		add("misc-shake128-"+strconv.Itoa(n), func() string { o := make([]byte, n); return dg(misc.SHAKE128(o, hm), o) })
		add("misc-shake256-"+strconv.Itoa(n), func() string { o := make([]byte, n); return dg(misc.SHAKE256(o, hm), o) })
	}
	add("misc-bytes", func() string {
		a, b := make([]byte, 8), make([]byte, 8)
		misc.ToByteLittleEndian(a, 0x01020304, 4)
		misc.ToByteBigEndian(b, 0x01020304, 4)
		misc.ToByteLittleEndian(a[4:], 0xfffe, 3)
		misc.ToByteBigEndian(b[4:], 0xfffe, 1)
		var ad [8]uint32
		misc.SetType(&ad, 1)
		misc.SetLTreeAddr(&ad, 0x12345)
		misc.SetTreeHeight(&ad, 7)
		misc.SetTreeIndex(&ad, 9)
		misc.SetKeyAndMask(&ad, 2)
		var o32 [32]uint8
		misc.AddrToByte(&o32, &ad)
		return dg(a, b, o32[:], []byte{misc.GetEndian()})
	})
	add("dverify-ok", func() string { return strconv.FormatBool(dilithium.Verify(s.dmsg, s.dsig, &s.dpk)) })
	bad := s.dsig
	bad[77] ^= 2
	add("dverify-bad", func() string { return strconv.FormatBool(dilithium.Verify(s.dmsg, bad, &s.dpk)) })
	add("dopen", func() string { return dg(dilithium.Open(s.Dsealed, &s.dpk)) })
	add("daddr", func() string { a := dilithium.GetDilithiumAddressFromPK(s.dpk); return dg(a[:]) })
	add("dgetters", func() string {
		pk, sk, sd := s.dk.GetPK(), s.dk.GetSK(), s.dk.GetSeed()
		a := s.dk.GetAddress()
		return dg(pk[:], sk[:], sd[:], a[:], []byte(s.dk.GetMnemonic()), []byte(s.dk.GetHexSeed()))
	})
	for i := 0; i < 6; i++ {
		m := make([]byte, r.Intn(200))
		r.Read(m)
		id := strconv.Itoa(i)
		add("dsign-shared-"+id, func() string { g, _ := s.dk.Sign(m); return dg(g[:]) })
		add("dseal-shared-"+id, func() string { g, _ := s.dk.Seal(m); return dg(g) })
	}
	for i := range s.Seeds {
		i := i
		id := strconv.Itoa(i)
		add("mn-enc-"+id, func() string { return dg([]byte(misc.SeedBinToMnemonic(s.Seeds[i]))) })
		add("mn-dec-"+id, func() string { b := misc.MnemonicToSeedBin(s.Mnemonics[i]); return dg(b[:]) })
		add("mn-dec-ext-"+id, func() string { b := misc.MnemonicToExtendedSeedBin(s.ExtMnemonic[i]); return dg(b[:]) })
		add("mn-dec-bad-"+id, func() string { b := misc.MnemonicToSeedBin(s.Mnemonics[i] + " zzz"); return dg(b[:]) })
	}
	for i := 0; i < 2; i++ {
		i := i
		add("dkeygen-"+strconv.Itoa(i), func() string {
			d, _ := dilithium.NewDilithiumFromSeed(s.Seeds[i])
			pk := d.GetPK()
			return dg(pk[:])
		})
		add("xkeygen-"+strconv.Itoa(i), func() string {
			x := xmss.NewXMSSFromSeed(s.Seeds[i], 4, xmss.HashFunction(i), common.SHA256_2X)
			pk := x.GetPK()
			return dg(pk[:])
		})
	}
	return ops
}

// private key script: a fixed sequence of operations on a key built from seed k
type xstep struct {
	kind string // sign | setindex
	arg  uint32
}

func xscript(r *rand.Rand) []xstep {
	var st []xstep
	idx := 0
	for len(st) < 10 && idx < 15 {
		if r.Intn(4) == 0 {
			j := idx + r.Intn(16-idx)
			if j > 15 {
				j = 15
			}
			st = append(st, xstep{"setindex", uint32(j)})
			idx = j
		} else {
			st = append(st, xstep{"sign", 0})
			idx++
		}
	}
	return st
}

func runX(x *xmss.XMSS, st xstep, stepNo int) (string, int) {
	switch st.kind {
	case "sign":
		i := int(x.GetIndex())
		res := safe(func() string {
			g, err := x.Sign([]byte("private-" + strconv.Itoa(stepNo)))
			if err != nil {
				return "error"
			}
			return dg(g)
		})
		return res, i
	default:
		return safe(func() string { x.SetIndex(st.arg); return "idx=" + strconv.Itoa(int(x.GetIndex())) }), -1
	}
}

func main() {
	seed := flag.Int64("seed", 1, "VERIF_SEED")
	out := flag.String("out", "", "trace file")
	statsOut := flag.String("stats", "", "stats json")
	ng := flag.Int("goroutines", 8, "number of goroutines")
	per := flag.Int("per", 30, "stateless calls per goroutine")
	rounds := flag.Int("rounds", 2, "concurrent rounds")
	phase := flag.String("phase", "both", "seq (oracle, writes -material) | conc (fresh process, reads -material) | both")
	material := flag.String("material", "", "file with the shared byte material")
	order := flag.String("order", "forward", "seq phase: order in which the calls are run alone (forward | reverse | shuffle)")
	flag.Parse()
	t0 := time.Now()
	r := rand.New(rand.NewSource(*seed*49979687 + 15))
	tr := &trace.Buf{}
	var s *shared
	if *phase == "conc" || *order != "forward" {
		// the shared byte material is built once (forward oracle); every other process loads it, so that
		// the calls under test are the FIRST library calls of the process (building the material would
		// itself initialise whatever process-wide state the library keeps)
		s = load(*material)
		// keep r in step with the sequential phase: the op pool draws random messages after buildShared
		r = rand.New(rand.NewSource(*seed*49979687 + 16))
	} else {
		s = buildShared(r)
		if *material != "" {
			trace.WriteJSON(*material, s)
		}
		r = rand.New(rand.NewSource(*seed*49979687 + 16))
	}
	ops := statelessOps(s, r)
	if f := os.Getenv("CONC_ONLY"); f != "" { // debugging aid: restrict the pool to ops whose id starts with f
		var sel []op
		for _, o := range ops {
			if len(o.id) >= len(f) && o.id[:len(f)] == f {
				sel = append(sel, o)
			}
		}
		ops = sel
	}

	// sequential oracle: every stateless call alone, twice; the order is a parameter because "what it
	// returns when run alone" must not depend on which other calls ran before it in the process
	seqOps := append([]op{}, ops...)
	switch *order {
	case "reverse":
		for i, j := 0, len(seqOps)-1; i < j; i, j = i+1, j-1 {
			seqOps[i], seqOps[j] = seqOps[j], seqOps[i]
		}
	case "shuffle":
		rs := rand.New(rand.NewSource(*seed + 977))
		rs.Shuffle(len(seqOps), func(i, j int) { seqOps[i], seqOps[j] = seqOps[j], seqOps[i] })
	default:
		// "lead:<op id>": that call is the FIRST library call of the process, the others follow in forward order
		// (state that the first caller initialises for everybody shows up as a result that depends on who was first)
		if strings.HasPrefix(*order, "lead:") {
			id := (*order)[5:]
			var lead, rest []op
			for _, o := range seqOps {
				if o.id == id {
					lead = append(lead, o)
				} else {
					rest = append(rest, o)
				}
			}
			seqOps = append(lead, rest...)
		}
	}
	isLead := strings.HasPrefix(*order, "lead:")
	for rep := 0; rep < 2 && *phase != "conc" && !(isLead && rep > 0); rep++ {
		for _, o := range seqOps {
			tr.Emit(event{Ev: "seq", Op: o.id, Res: o.run(), SigIdx: -1})
		}
	}
	// private XMSS keys: script per goroutine slot, run alone
	nslots := *ng
	scripts := make([][]xstep, nslots)
	xseeds := make([][48]uint8, nslots)
	for g := 0; g < nslots; g++ {
		scripts[g] = xscript(r)
		r.Read(xseeds[g][:])
		if *phase == "conc" || isLead {
			continue
		}
		x := xmss.NewXMSSFromSeed(xseeds[g], 4, xmss.HashFunction(g%3), common.SHA256_2X)
		for i, st := range scripts[g] {
			res, _ := runX(x, st, i)
			tr.Emit(event{Ev: "seq", Op: fmt.Sprintf("x:%d:%d:%s", g, i, st.kind), Res: res, SigIdx: -1})
		}
	}
	if *phase == "seq" {
		*rounds = 0
	}
	calls := 0
	// Stampede: for every operation of the pool, all goroutines call it at the same moment.
	// The race detector only remembers recent accesses, so state that is lazily initialised on
	// first use is caught when the first uses coincide. The barrier between operations is a
	// synchronisation point, the calls released by it are concurrent with each other.
	if *rounds > 0 {
		tr.Emit(event{Ev: "round", Gmp: runtime.GOMAXPROCS(0), NG: *ng, SigIdx: -1})
		logs := make([][]event, *ng)
		gates := make([]chan struct{}, len(ops))
		for k := range gates {
			gates[k] = make(chan struct{})
		}
		var fin sync.WaitGroup
		var step sync.WaitGroup
		for g := 0; g < *ng; g++ {
			g := g
			logs[g] = make([]event, 0, 2*len(ops))
			fin.Add(1)
			go func() {
				defer fin.Done()
				for k := range ops {
					<-gates[k]
					logs[g] = append(logs[g], event{Ev: "call", G: g, N: k + 1, Op: ops[k].id, SigIdx: -1})
					res := ops[k].run()
					logs[g] = append(logs[g], event{Ev: "ret", G: g, N: k + 1, Op: ops[k].id, Res: res, SigIdx: -1})
					step.Done()
				}
			}()
		}
		// first uses first: decoders and verifiers before anything that could warm shared state
		for k := range ops {
			step.Add(*ng)
			close(gates[k])
			step.Wait()
		}
		fin.Wait()
		for g := 0; g < *ng; g++ {
			calls += len(logs[g]) / 2
			for _, e := range logs[g] {
				tr.Emit(e)
			}
		}
	}
	for round := 0; round < *rounds; round++ {
		tr.Emit(event{Ev: "round", Gmp: runtime.GOMAXPROCS(0), NG: *ng, SigIdx: -1})
		// Events are collected in goroutine-local slices and serialised only after the join:
		// json.Marshal and fmt go through sync.Pool, whose Put/Get are synchronisation points
		// for the race detector and would hide races between the calls under test.
		logs := make([][]event, *ng)
		ids := make([][]string, *ng)
		for g := 0; g < *ng; g++ {
			for i, st := range scripts[g] {
				ids[g] = append(ids[g], "x:"+strconv.Itoa(g)+":"+strconv.Itoa(i)+":"+st.kind)
			}
			logs[g] = make([]event, 0, 2*(*per+len(scripts[g])+4))
		}
		start := make(chan struct{})
		var wg sync.WaitGroup
		for g := 0; g < *ng; g++ {
			g := g
			rr := rand.New(rand.NewSource(r.Int63()))
			wg.Add(1)
			go func() {
				defer wg.Done()
				<-start
				x := xmss.NewXMSSFromSeed(xseeds[g], 4, xmss.HashFunction(g%3), common.SHA256_2X)
				n := 1
				xi := 0
				for c := 0; c < *per || xi < len(scripts[g]); c++ {
					if xi < len(scripts[g]) && (c >= *per || rr.Intn(4) == 0) {
						st := scripts[g][xi]
						id := ids[g][xi]
						logs[g] = append(logs[g], event{Ev: "call", G: g, N: n, Op: id, SigIdx: -1})
						res, si := runX(x, st, xi)
						logs[g] = append(logs[g], event{Ev: "ret", G: g, N: n, Op: id, Res: res, SigIdx: si})
						xi++
					} else {
						o := ops[rr.Intn(len(ops))]
						logs[g] = append(logs[g], event{Ev: "call", G: g, N: n, Op: o.id, SigIdx: -1})
						res := o.run()
						logs[g] = append(logs[g], event{Ev: "ret", G: g, N: n, Op: o.id, Res: res, SigIdx: -1})
					}
					n++
					if rr.Intn(8) == 0 {
						runtime.Gosched()
					}
				}
			}()
		}
		close(start)
		wg.Wait()
		for g := 0; g < *ng; g++ {
			calls += len(logs[g]) / 2
			for _, e := range logs[g] {
				tr.Emit(e)
			}
		}
	}
	if err := tr.WriteFile(*out); err != nil {
		fmt.Fprintln(os.Stderr, err)
		os.Exit(2)
	}
	if *statsOut != "" {
		trace.WriteJSON(*statsOut, map[string]interface{}{"events": tr.N, "concurrent_calls": calls, "distinct_ops": len(ops), "goroutines": *ng,
			"gomaxprocs": runtime.GOMAXPROCS(0), "wall_s": time.Since(t0).Seconds()})
	}
}
