package main

import (
	"math/rand"
	"runtime"
	"sync"

	"github.com/theQRL/go-qrllib/dilithium"

	"verifharness/trace"
)

// C03: every signature and sealed message verifies. One event per Sign/Seal of
// one message, carrying the rejection-loop iterations observed through the
// signing hook.

const q = 8380417

func centred(c int32) int32 {
	v := int64(c) % q
	if v < 0 {
		v += q
	}
	if v > (q-1)/2 {
		v -= q
	}
	if v < 0 {
		v = -v
	}
	return int32(v)
}

func maxNorm(ps []dilithium.VerifPoly) int {
	m := int32(0)
	for i := range ps {
		for _, c := range ps[i] {
			if a := centred(c); a > m {
				m = a
			}
		}
	}
	return int(m)
}

type iter struct {
	Exit   int `json:"exit"`
	Nonce  int `json:"nonce"`
	MaxZ   int `json:"maxz"`
	MaxW0  int `json:"maxw0"`
	MaxCt0 int `json:"maxct0"`
	Hints  int `json:"hints"`
}

type sEvent struct {
	Ev        string `json:"ev"`
	Key       int    `json:"key"`
	MsgLen    int    `json:"msglen"`
	MsgD      string `json:"msgd"`
	Iters     []iter `json:"iters"`
	SealIters []iter `json:"sealiters"`
	Res       string `json:"res"`
	SigD      string `json:"sigd"`
	Verify    bool   `json:"verify"`
	VerifyOth bool   `json:"verifyother"`
	VerifyKey bool   `json:"verifyotherkey"`
	SealLen   int    `json:"seallen"`
	OpenEq    bool   `json:"openeq"`
	OpenNil   bool   `json:"opennil"`
	ExSigEq   bool   `json:"exsigeq"`
	ExMsgEq   bool   `json:"exmsgeq"`
	SealSigEq bool   `json:"sealsigeq"`
	MsgIntact bool   `json:"msgintact"`
}

var iters []iter
var pendW0, pendCt0 = -1, -1

func installSignHook() {
	dilithium.VerifSignHook = func(exit int, nonce uint16, c []uint8, z *[dilithium.L]dilithium.VerifPoly, w0, h *[dilithium.K]dilithium.VerifPoly, hints uint) {
		switch exit {
		case 12: // w0 test passed: remember its norm for this iteration's final event
			pendW0 = maxNorm(w0[:])
			return
		case 13:
			pendCt0 = maxNorm(h[:])
			return
		}
		it := iter{Exit: exit, Nonce: int(nonce), MaxZ: maxNorm(z[:]), Hints: int(hints), MaxW0: pendW0, MaxCt0: pendCt0}
		switch exit {
		case 1:
			it.MaxW0, it.MaxCt0 = -1, -1
		case 2:
			it.MaxW0, it.MaxCt0 = maxNorm(w0[:]), -1
		case 3:
			it.MaxCt0 = maxNorm(h[:])
		}
		pendW0, pendCt0 = -1, -1
		iters = append(iters, it)
	}
}

func c03(r *rand.Rand, tier string, tr *trace.Buf, extra map[string]interface{}) {
	installSignHook()
	nkeys, nmsg := 6, 150
	if tier == "thorough" {
		nkeys, nmsg = 40, 500
	}
	lens := []int{0, 1, 7, 135, 136, 137, 4096}
	// lengths around the sizes that appear in the scheme (seed, CRH, SHAKE rates, key and signature sizes)
	var structural []int
	for _, c := range []int{32, 64, 136, 168, 2 * 136, 640, 1024, 2592, 4595, 4864, 2 * 4595} {
		for d := -34; d <= 3; d++ {
			if c+d >= 300 {
				structural = append(structural, c+d)
			}
		}
	}
	exitCount := map[int]int{}
	iterHist := map[int]int{}
	boundary := map[string]int{}
	var prevPK *[dilithium.CryptoPublicKeyBytes]uint8
	for k := 0; k < nkeys; k++ {
		var seed [48]uint8
		r.Read(seed[:])
		d, err := dilithium.NewDilithiumFromSeed(seed)
		if err != nil {
			panic(err)
		}
		pk := d.GetPK()
		for m := 0; m < nmsg; m++ {
			n := lens[m%len(lens)]
			if m >= len(lens) {
				n = r.Intn(300)
			}
			if k < 2 { // the first two keys sweep every message length 0, 1, 2, ..
				n = k*nmsg + m
			}
			if k == 0 && m == nmsg-1 {
				n = 1 << 20
			}
			if k >= 2 {
				if si := (k-2)*nmsg + m; si < len(structural) {
					n = structural[si]
				}
			}
			msg := make([]byte, n)
			r.Read(msg)
			orig := dup(msg)
			e := sEvent{Ev: "sign", Key: k, MsgLen: n, MsgD: dg(msg)}
			iters = nil
			var sig [dilithium.CryptoBytes]uint8
			var sealed []byte
			e.Res = call(func() {
				var err error
				sig, err = d.Sign(msg)
				if err != nil {
					panic(err.Error())
				}
			})
			e.Iters = iters
			iters = nil
			if e.Res == "ok" {
				e.Res = call(func() {
					var err error
					sealed, err = d.Seal(msg)
					if err != nil {
						panic(err.Error())
					}
				})
			}
			e.SealIters = iters
			if e.Res == "ok" {
				e.SigD = dg(sig[:])
				e.Verify = dilithium.Verify(msg, sig, &pk)
				other := append(dup(msg), 1)
				e.VerifyOth = dilithium.Verify(other, sig, &pk)
				if prevPK != nil {
					e.VerifyKey = dilithium.Verify(msg, sig, prevPK)
				}
				e.SealLen = len(sealed)
				opened := dilithium.Open(sealed, &pk)
				e.OpenNil = opened == nil
				e.OpenEq = opened != nil && string(opened) == string(orig)
				if len(sealed) >= dilithium.CryptoBytes {
					e.ExSigEq = string(dilithium.ExtractSignature(sealed)) == string(sig[:])
					e.ExMsgEq = string(dilithium.ExtractMessage(sealed)) == string(orig)
					e.SealSigEq = string(sealed[:dilithium.CryptoBytes]) == string(sig[:])
				}
			}
			e.MsgIntact = string(msg) == string(orig)
			if e.Iters == nil { // a call that never entered the rejection loop: an empty list, not a JSON null
				e.Iters = []iter{}
			}
			if e.SealIters == nil {
				e.SealIters = []iter{}
			}
			tr.Emit(e)
			iterHist[len(e.Iters)]++
			for _, it := range e.Iters {
				exitCount[it.Exit]++
				if it.MaxZ == (1<<19)-120 || it.MaxZ == (1<<19)-121 {
					boundary["z"]++
				}
				if it.MaxW0 == 261888-120 || it.MaxW0 == 261888-121 {
					boundary["w0"]++
				}
				if it.MaxCt0 == 261888 || it.MaxCt0 == 261887 {
					boundary["ct0"]++
				}
			}
		}
		p := pk
		prevPK = &p
	}
	c03hold(r, tier, tr)
	c03bulk(r, tier, tr, extra)
	extra["exits"] = exitCount
	extra["iterations_histogram"] = iterHist
	extra["boundary_hits"] = boundary
}

// holdEvent: one key object used the way an application uses it - many calls, the message passed in ONE
// buffer that is rewritten in place between calls, every returned signature / sealed message kept by the
// caller - and everything that was returned is looked at again after the last call.
type holdEvent struct {
	Ev           string `json:"ev"`
	Key          int    `json:"key"`
	Calls        int    `json:"calls"`
	Res          string `json:"res"`
	KeptSigSame  bool   `json:"keptsigsame"`  // signatures returned earlier are unchanged by later calls
	KeptSealSame bool   `json:"keptsealsame"` // sealed messages returned earlier are unchanged by later calls
	AllVerify    bool   `json:"allverify"`    // each signature verifies for the message as it was at its call
	AllOpen      bool   `json:"allopen"`      // each sealed message opens to the message as it was at its call
	SealIsSigMsg bool   `json:"sealissigmsg"` // each sealed message is Sign(m) || m
}

func c03hold(r *rand.Rand, tier string, tr *trace.Buf) {
	nkeys := 3
	if tier == "thorough" {
		nkeys = 12
	}
	for k := 0; k < nkeys; k++ {
		var seed [48]uint8
		r.Read(seed[:])
		d, err := dilithium.NewDilithiumFromSeed(seed)
		if err != nil {
			panic(err)
		}
		pk := d.GetPK()
		// lengths: long first, then shorter ones (a result that lives in a reused work area is overwritten
		// by a later call that fits into it), equal lengths in a row (a memo keyed on the caller's buffer)
		lens := []int{5000, 200, 200, 64, 64, 64, 128, 128, 1, 1, 0, 0, 33, 33, 4595, 4595, 300}
		r.Shuffle(len(lens)-1, func(i, j int) { lens[i+1], lens[j+1] = lens[j+1], lens[i+1] })
		buf := make([]byte, 6000)
		type rec struct {
			msg      []byte
			sig      [dilithium.CryptoBytes]uint8
			sealed   []byte
			sealedCp []byte
		}
		var recs []rec
		e := holdEvent{Ev: "hold", Key: k, KeptSigSame: true, KeptSealSame: true, AllVerify: true, AllOpen: true, SealIsSigMsg: true}
		e.Res = call(func() {
			for i, n := range lens {
				m := buf[:n] // the SAME backing array every time
				if i%3 != 2 {
					r.Read(m)
				} else if n > 0 {
					m[r.Intn(n)] ^= 1 << uint(r.Intn(8)) // one bit of the previous content
				}
				rc := rec{msg: dup(m)}
				var err error
				if rc.sig, err = d.Sign(m); err != nil {
					panic(err.Error())
				}
				if rc.sealed, err = d.Seal(m); err != nil {
					panic(err.Error())
				}
				rc.sealedCp = dup(rc.sealed)
				recs = append(recs, rc)
				e.Calls += 2
			}
		})
		sigCopies := make([][dilithium.CryptoBytes]uint8, len(recs))
		for i := range recs {
			sigCopies[i] = recs[i].sig
		}
		for i, rc := range recs {
			if rc.sig != sigCopies[i] {
				e.KeptSigSame = false
			}
			if string(rc.sealed) != string(rc.sealedCp) {
				e.KeptSealSame = false
			}
			if !dilithium.Verify(rc.msg, rc.sig, &pk) {
				e.AllVerify = false
			}
			if o := dilithium.Open(rc.sealedCp, &pk); o == nil || string(o) != string(rc.msg) {
				e.AllOpen = false
			}
			if len(rc.sealedCp) != dilithium.CryptoBytes+len(rc.msg) || string(rc.sealedCp[:dilithium.CryptoBytes]) != string(rc.sig[:]) ||
				string(rc.sealedCp[dilithium.CryptoBytes:]) != string(rc.msg) {
				e.SealIsSigMsg = false
			}
		}
		tr.Emit(e)
	}
}

// bulkEvent: many more (key, message) pairs than the detailed events can carry, reduced to counts: Sign must
// return a signature (however many passes of the rejection loop the message needs) and it must verify.
type bulkEvent struct {
	Ev        string `json:"ev"`
	N         int    `json:"n"`
	Res       string `json:"res"`
	SignErrs  int    `json:"signerrs"`
	NotVerify int    `json:"notverify"`
	FirstBad  []int  `json:"firstbad"`
}

func c03bulk(r *rand.Rand, tier string, tr *trace.Buf, extra map[string]interface{}) {
	n := 40000
	if tier == "thorough" {
		n = 600000
	}
	var seed [48]uint8
	r.Read(seed[:])
	nw := runtime.NumCPU()
	base := r.Int63()
	type res struct {
		signErrs, notVerify int
		first               []byte
	}
	out := make([]res, nw)
	var wg sync.WaitGroup
	for w := 0; w < nw; w++ {
		w := w
		wg.Add(1)
		go func() {
			defer wg.Done()
			d, err := dilithium.NewDilithiumFromSeed(seed) // one object per goroutine, the same key
			if err != nil {
				out[w].signErrs = 1
				return
			}
			pk := d.GetPK()
			rr := rand.New(rand.NewSource(base + int64(w)))
			for i := w; i < n; i += nw {
				msg := make([]byte, 8+rr.Intn(24))
				rr.Read(msg)
				bad := false
				func() {
					defer func() {
						if recover() != nil {
							bad = true
							out[w].signErrs++
						}
					}()
					sig, err := d.Sign(msg)
					if err != nil {
						bad = true
						out[w].signErrs++
						return
					}
					if !dilithium.Verify(msg, sig, &pk) {
						bad = true
						out[w].notVerify++
					}
				}()
				if bad && out[w].first == nil {
					out[w].first = msg
				}
			}
		}()
	}
	wg.Wait()
	e := bulkEvent{Ev: "bulk", N: n, Res: "ok", FirstBad: []int{}}
	for _, o := range out {
		e.SignErrs += o.signErrs
		e.NotVerify += o.notVerify
		if len(e.FirstBad) == 0 && o.first != nil {
			e.FirstBad = ints(o.first)
		}
	}
	tr.Emit(e)
	extra["bulk_signatures"] = n
}
