package main

import (
	"math/rand"

	"github.com/theQRL/go-qrllib/dilithium"

	"verifharness/trace"
)

// C13: encodings are lossless and canonical. Events for spec/TraceDilPack.tla.

type pEvent struct {
	Ev      string  `json:"ev"`
	Kind    string  `json:"kind"`
	Class   string  `json:"class"`
	Coeffs  []int   `json:"coeffs,omitempty"`
	Bytes   []int   `json:"bytes,omitempty"`
	Back    []int   `json:"back,omitempty"`
	Repack  []int   `json:"repack,omitempty"`
	Rows    [][]int `json:"rows,omitempty"`
	BackR   [][]int `json:"backrows,omitempty"`
	Rc      int     `json:"rc"`
	Hint    []int   `json:"hint,omitempty"`
	Z       [][]int `json:"z,omitempty"`
	ZBytes  [][]int `json:"zbytes,omitempty"`
	RepackD string  `json:"repack_digest,omitempty"`
	BytesD  string  `json:"bytes_digest,omitempty"`
	Pk      []int   `json:"pk,omitempty"`
	Sk      []int   `json:"sk,omitempty"`
	PkRho   []int   `json:"pk_rho,omitempty"`
	SkParts [][]int `json:"sk_parts,omitempty"`
	T1      [][]int `json:"t1,omitempty"`
	T0      [][]int `json:"t0,omitempty"`
	S1      [][]int `json:"s1,omitempty"`
	S2      [][]int `json:"s2,omitempty"`
}

type kindInfo struct {
	name     string
	lo, hi   int32
	group    int // coefficients per byte group
	unpacker bool
}

var kinds = []kindInfo{
	{"eta", -2, 2, 8, true}, {"t1", 0, 1023, 4, true}, {"t0", -4095, 4096, 8, true}, {"z", -524287, 524288, 2, true}, {"w1", 0, 15, 2, false},
}

func polys(ps []dilithium.VerifPoly) [][]int {
	o := make([][]int, len(ps))
	for i := range ps {
		o[i] = ints32(ps[i][:])
	}
	return o
}

func c13(r *rand.Rand, tier string, tr *trace.Buf, extra map[string]interface{}) {
	emitPack := func(k kindInfo, class string, p dilithium.VerifPoly) {
		b := dilithium.VerifPack(k.name, &p)
		e := pEvent{Ev: "pack", Kind: k.name, Class: class, Coeffs: ints32(p[:]), Bytes: ints(b), Back: []int{}}
		if k.unpacker {
			u := dilithium.VerifUnpack(k.name, b)
			e.Back = ints32(u[:])
		}
		tr.Emit(e)
	}
	nrand := 6
	if tier == "thorough" {
		nrand = 60
	}
	for _, k := range kinds {
		span := int(k.hi - k.lo + 1)
		bg := func(mode int, i int) int32 {
			switch mode {
			case 0:
				return k.lo
			case 1:
				return k.hi
			case 2:
				if k.lo < 0 {
					return 0
				}
				return k.lo
			}
			return k.lo + int32(r.Intn(span))
		}
		// extremes and one-hot bit patterns at every position of a group, over several backgrounds
		vals := []int32{k.lo, k.hi, k.lo + 1, k.hi - 1}
		for b := uint(0); (1 << b) < span; b++ {
			vals = append(vals, k.lo+int32(1<<b), k.hi-int32(1<<b))
		}
		for mode := 0; mode < 4; mode++ {
			for _, v := range vals {
				if v < k.lo || v > k.hi {
					continue
				}
				for lane := 0; lane < k.group; lane++ {
					var p dilithium.VerifPoly
					for i := range p {
						p[i] = bg(mode, i)
					}
					for i := lane; i < 256; i += k.group * (1 + r.Intn(3)) {
						p[i] = v
					}
					p[lane] = v
					p[256-k.group+lane] = v
					emitPack(k, "lane-value", p)
				}
			}
		}
		// every position once with each extreme, others opposite
		for pos := 0; pos < 256; pos += 1 {
			if tier == "quick" && pos%5 != 0 && pos < 250 {
				continue
			}
			var p dilithium.VerifPoly
			for i := range p {
				p[i] = k.lo
			}
			p[pos] = k.hi
			emitPack(k, "position-hi", p)
			for i := range p {
				p[i] = k.hi
			}
			p[pos] = k.lo
			emitPack(k, "position-lo", p)
		}
		for q := 0; q < nrand; q++ {
			var p dilithium.VerifPoly
			for i := range p {
				p[i] = k.lo + int32(r.Intn(span))
			}
			emitPack(k, "random", p)
		}
		// arbitrary bytes -> coefficients -> bytes
		if k.unpacker {
			n := dilithium.VerifPackedBytes(k.name)
			for q := 0; q < nrand+4; q++ {
				b := make([]byte, n)
				switch q {
				case 0:
				case 1:
					for i := range b {
						b[i] = 0xff
					}
				case 2:
					for i := range b {
						b[i] = 0xaa
					}
				case 3:
					for i := range b {
						b[i] = 0x55
					}
				default:
					r.Read(b)
				}
				u := dilithium.VerifUnpack(k.name, b)
				rp := dilithium.VerifPack(k.name, &u)
				tr.Emit(pEvent{Ev: "unpack", Kind: k.name, Class: "bytes", Bytes: ints(b), Coeffs: ints32(u[:]), Repack: ints(rp)})
			}
		}
	}
	// hint vectors
	type hv = [dilithium.K]dilithium.VerifPoly
	emitHint := func(class string, rows [][]int) {
		var h hv
		for i, row := range rows {
			for _, p := range row {
				h[i][p] = 1
			}
		}
		var z [dilithium.L]dilithium.VerifPoly
		c := make([]byte, 32)
		var sig []byte
		res := call(func() { sig, _ = dilithium.VerifPackSig(c, &z, &h) })
		e := pEvent{Ev: "hint", Class: class, Rows: rows, Rc: -1, Bytes: []int{}, BackR: [][]int{}}
		for i := range e.Rows {
			if e.Rows[i] == nil {
				e.Rows[i] = []int{}
			}
		}
		if res == "ok" {
			e.Bytes = ints(sig[hintOff:])
			var s [dilithium.CryptoBytes]uint8
			copy(s[:], sig)
			_, _, hb, rc := dilithium.VerifUnpackSig(s)
			e.Rc = rc
			for i := 0; i < dilithium.K; i++ {
				row := []int{}
				for j, v := range hb[i] {
					if v != 0 {
						row = append(row, j)
					}
				}
				e.BackR = append(e.BackR, row)
			}
		} else {
			e.Class += "/" + res
		}
		tr.Emit(e)
	}
	weights := []int{0, 1, 2, 74, 75, 76, 80}
	for _, w := range weights {
		for variant := 0; variant < 4; variant++ {
			rows := make([][]int, 8)
			switch variant {
			case 0: // spread
				used := map[int]bool{}
				for n := 0; n < w; {
					i, p := r.Intn(8), r.Intn(256)
					if !used[i*256+p] {
						used[i*256+p] = true
						rows[i] = append(rows[i], p)
						n++
					}
				}
			case 1: // all in one row
				i := r.Intn(8)
				for n := 0; n < w; n++ {
					rows[i] = append(rows[i], 255-n*3)
				}
			case 2: // last row only
				for n := 0; n < w; n++ {
					rows[7] = append(rows[7], n)
				}
			case 3: // first row, including positions 0 and 255
				for n := 0; n < w; n++ {
					rows[0] = append(rows[0], (n*255)/max(1, w-1))
				}
				rows[0] = dedup(rows[0])
			}
			for i := range rows {
				rows[i] = sortInts(rows[i])
			}
			emitHint("weight", rows)
		}
	}
	// whole signatures: genuine, hint-corrupted (C05's classes) and random byte strings
	var seed [48]uint8
	r.Read(seed[:])
	d, _ := dilithium.NewDilithiumFromSeed(seed)
	nsig := 4
	if tier == "thorough" {
		nsig = 30
	}
	for q := 0; q < nsig*3+8; q++ {
		msg := make([]byte, r.Intn(64))
		r.Read(msg)
		sig, _ := d.Sign(msg)
		class := "genuine"
		if q >= nsig*3 { // one padding byte non-zero: every padding position class, including the last one (74)
			class = "padding-nonzero"
			h := sig[hintOff:]
			last := int(h[75+7])
			if last < 75 {
				p := []int{last, 74, (last + 74) / 2, 73, last + 1, 74, 74, last}[q-nsig*3]
				if p < last {
					p = last
				}
				if p > 74 {
					p = 74
				}
				h[p] = byte(1 + r.Intn(255))
			}
		}
		switch q%3 + 3*boolInt(q >= nsig*3) {
		case 1:
			class = "random-z"
			r.Read(sig[32:hintOff])
		case 2:
			class = "hint-mutated"
			h := sig[hintOff:]
			switch r.Intn(4) {
			case 0:
				h[r.Intn(75)] ^= byte(1 << uint(r.Intn(8)))
			case 1:
				h[75+r.Intn(8)] ^= byte(1 << uint(r.Intn(7)))
			case 2:
				i := r.Intn(74)
				h[i], h[i+1] = h[i+1], h[i]
			case 3:
				r.Read(h)
			}
		}
		c, z, hb, rc := dilithium.VerifUnpackSig(sig)
		e := pEvent{Ev: "sig", Class: class, Rc: rc, Hint: ints(sig[hintOff:]), BytesD: dg(sig[:]), Z: polys(z[:])}
		for p := 0; p < 7; p++ {
			e.ZBytes = append(e.ZBytes, ints(sig[32+640*p:32+640*(p+1)]))
		}
		e.RepackD = "rejected"
		if rc == 0 {
			rp, err := dilithium.VerifPackSig(c[:], &z, &hb)
			if err == nil {
				e.RepackD = dg(rp)
			}
		}
		tr.Emit(e)
	}
	// crafted hint sections (z and c from a genuine signature): one row holds a short pattern around the
	// extreme positions 0 and 255; the decoder must accept exactly the canonical ones
	{
		msg := []byte("crafted hints")
		base, _ := d.Sign(msg)
		pats := [][]byte{{255, 255}, {255, 0}, {255, 254}, {0, 0}, {1, 0}, {0, 1}, {254, 255}, {254, 255, 255}, {254, 255, 0}, {127, 128, 127}, {128, 127},
			{0}, {255}, {0, 255}, {0, 128, 255}, {5, 5, 6}, {5, 6, 6}}
		// the same index in CONSECUTIVE rows is canonical (ordering is per row): row r ends with v, row r+1 begins
		// with v, for v = 0, 5, 255 and with an empty row in between
		for _, v := range []byte{0, 5, 255} {
			for _, gap := range []int{0, 1} {
				for _, first := range []int{0, 3, 6 - gap} {
					sig := base
					h := sig[hintOff:]
					for i := range h {
						h[i] = 0
					}
					k := 0
					cnts := [8]int{}
					for row := 0; row < 8; row++ {
						switch {
						case row == first:
							if v > 0 {
								h[k] = v - 1 + byte(boolInt(v == 1))
								if v >= 2 {
									h[k] = v - 2
									k++
								}
							}
							h[k] = v
							k++
						case row == first+1+gap:
							h[k] = v
							k++
							if v < 255 {
								h[k] = v + 1
								k++
							}
						}
						cnts[row] = k
					}
					for i := 0; i < 8; i++ {
						h[75+i] = byte(cnts[i])
					}
					c, z, hb, rc := dilithium.VerifUnpackSig(sig)
					e := pEvent{Ev: "sig", Class: "same-index-in-consecutive-rows", Rc: rc, Hint: ints(sig[hintOff:]), BytesD: dg(sig[:]), Z: polys(z[:])}
					for p := 0; p < 7; p++ {
						e.ZBytes = append(e.ZBytes, ints(sig[32+640*p:32+640*(p+1)]))
					}
					e.RepackD = "rejected"
					if rc == 0 {
						if rp, err := dilithium.VerifPackSig(c[:], &z, &hb); err == nil {
							e.RepackD = dg(rp)
						}
					}
					tr.Emit(e)
				}
			}
		}
		for _, row := range []int{0, 3, 7} {
			for _, pat := range pats {
				for _, lead := range []int{0, 2} { // rows before it empty, or two entries in row 0
					sig := base
					h := sig[hintOff:]
					for i := range h {
						h[i] = 0
					}
					k := 0
					if lead > 0 && row > 0 {
						h[0], h[1] = 3, 200
						k = 2
					}
					copy(h[k:], pat)
					for i := 0; i < 8; i++ {
						switch {
						case i < row:
							h[75+i] = byte(k)
						default:
							h[75+i] = byte(k + len(pat))
						}
					}
					c, z, hb, rc := dilithium.VerifUnpackSig(sig)
					e := pEvent{Ev: "sig", Class: "crafted-hints", Rc: rc, Hint: ints(sig[hintOff:]), BytesD: dg(sig[:]), Z: polys(z[:])}
					for p := 0; p < 7; p++ {
						e.ZBytes = append(e.ZBytes, ints(sig[32+640*p:32+640*(p+1)]))
					}
					e.RepackD = "rejected"
					if rc == 0 {
						if rp, err := dilithium.VerifPackSig(c[:], &z, &hb); err == nil {
							e.RepackD = dg(rp)
						}
					}
					tr.Emit(e)
				}
			}
		}
	}
	// count bytes that DROP at one row while every entry byte they skip over is 0 (single hints at position 0
	// look like padding): the boundaries must never decrease, at every row including the last
	{
		msg := []byte("count drops")
		base, _ := d.Sign(msg)
		for row := 1; row < 8; row++ {
			for _, a := range []int{1, 2, 3} {
				for _, to := range []int{0, a - 1} {
					for _, fill := range []int{0, 1} { // entries all 0 / rows before `row` are single hints at 0 and the first row is {0, 9}
						sig := base
						h := sig[hintOff:]
						for i := range h {
							h[i] = 0
						}
						for i := 0; i < 8; i++ {
							switch {
							case i < row-1:
								h[75+i] = byte(a - 1)
							case i == row-1:
								h[75+i] = byte(a)
							default:
								h[75+i] = byte(to)
							}
						}
						if fill == 1 && a >= 2 && row >= 2 {
							h[1] = 0
							h[0] = 0
							h[75+0] = byte(a - 1) // row 0 holds a-1 entries: {0} or {0, 9}
							if a == 3 {
								h[1] = 9
							}
						}
						c, z, hb, rc := dilithium.VerifUnpackSig(sig)
						e := pEvent{Ev: "sig", Class: "count-drop", Rc: rc, Hint: ints(sig[hintOff:]), BytesD: dg(sig[:]), Z: polys(z[:])}
						for p := 0; p < 7; p++ {
							e.ZBytes = append(e.ZBytes, ints(sig[32+640*p:32+640*(p+1)]))
						}
						e.RepackD = "rejected"
						if rc == 0 {
							if rp, err := dilithium.VerifPackSig(c[:], &z, &hb); err == nil {
								e.RepackD = dg(rp)
							}
						}
						tr.Emit(e)
					}
				}
			}
		}
	}
	// key layout
	for q := 0; q < 2; q++ {
		r.Read(seed[:])
		k, _ := dilithium.NewDilithiumFromSeed(seed)
		pk, sk := k.GetPK(), k.GetSK()
		rho, t1 := dilithium.VerifUnpackPk(&pk)
		rho2, trr, key, t0, s1, s2 := dilithium.VerifUnpackSk(&sk)
		tr.Emit(pEvent{Ev: "keys", Pk: ints(pk[:]), Sk: ints(sk[:]), PkRho: ints(rho[:]), SkParts: [][]int{ints(rho2[:]), ints(key[:]), ints(trr[:])},
			T1: polys(t1[:]), T0: polys(t0[:]), S1: polys(s1[:]), S2: polys(s2[:])})
	}
}

func boolInt(b bool) int {
	if b {
		return 1
	}
	return 0
}

func max(a, b int) int {
	if a > b {
		return a
	}
	return b
}

func dedup(a []int) []int {
	seen := map[int]bool{}
	var o []int
	for _, v := range a {
		if !seen[v] {
			seen[v] = true
			o = append(o, v)
		}
	}
	return o
}

func sortInts(a []int) []int {
	o := append([]int{}, a...)
	for i := range o {
		for j := i + 1; j < len(o); j++ {
			if o[j] < o[i] {
				o[i], o[j] = o[j], o[i]
			}
		}
	}
	return o
}
