package main

import (
	"math/rand"
	"runtime"
	"strconv"
	"sync"

	"github.com/theQRL/go-qrllib/dilithium"

	"verifharness/trace"
)

// C05: Verify is strict. Events for spec/TraceDilithiumVerify.tla.

const (
	hintOff = 32 + 7*640
	omega   = 75
)

type vEvent struct {
	Ev       string `json:"ev"`
	Class    string `json:"class"`
	Modified bool   `json:"modified"`
	Genuine  bool   `json:"genuine"` // produced by the library's own Sign
	Hint     []int  `json:"hint"`
	MaxZ     int    `json:"maxz"`
	Verify   bool   `json:"verify"`
	OpenNil  bool   `json:"opennil"`
	Target   string `json:"target,omitempty"`
	Off      int    `json:"off"`
	Verifies []bool `json:"verifies,omitempty"`
	OpenNils []bool `json:"opennils,omitempty"`
	// skipping signer
	Iter   int `json:"iter"`
	MaxW0  int `json:"maxw0"`
	MaxCt0 int `json:"maxct0"`
	Hints  int `json:"hints"`
}

// own decoder of the z part: 20-bit little-endian groups, coefficient = 2^19 - t
func maxZOf(sig []byte) int {
	m := 0
	for p := 0; p < 7; p++ {
		a := sig[32+640*p:]
		for i := 0; i < 128; i++ {
			t0 := int(a[5*i]) | int(a[5*i+1])<<8 | (int(a[5*i+2])&0x0f)<<16
			t1 := int(a[5*i+2])>>4 | int(a[5*i+3])<<4 | int(a[5*i+4])<<12
			for _, t := range []int{t0, t1} {
				v := (1 << 19) - t
				if v < 0 {
					v = -v
				}
				if v > m {
					m = v
				}
			}
		}
	}
	return m
}

func c05(r *rand.Rand, tier string, tr *trace.Buf, extra map[string]interface{}) {
	var seed, seed2 [48]uint8
	r.Read(seed[:])
	r.Read(seed2[:])
	d, _ := dilithium.NewDilithiumFromSeed(seed)
	d2, _ := dilithium.NewDilithiumFromSeed(seed2)
	pk, pk2 := d.GetPK(), d2.GetPK()
	sk := d.GetSK()

	check := func(class string, msg []byte, sig [dilithium.CryptoBytes]uint8, p *[dilithium.CryptoPublicKeyBytes]uint8, modified, genuine bool) vEvent {
		e := vEvent{Ev: "case", Class: class, Modified: modified, Genuine: genuine, Hint: ints(sig[hintOff:]), MaxZ: maxZOf(sig[:])}
		e.Verify = dilithium.Verify(msg, sig, p)
		sm := append(dup(sig[:]), msg...)
		e.OpenNil = dilithium.Open(sm, p) == nil
		return e
	}
	nsigs := 2
	if tier == "thorough" {
		nsigs = 6
	}
	classes := map[string]int{}
	hasPos := func(sig [dilithium.CryptoBytes]uint8, want byte) bool {
		h := sig[hintOff:]
		for i := 0; i < int(h[omega+7]) && i < omega; i++ {
			if h[i] == want {
				return true
			}
		}
		return false
	}
	for s := 0; s < nsigs+2; s++ {
		msg := make([]byte, 1+r.Intn(100))
		r.Read(msg)
		sig, _ := d.Sign(msg)
		if s >= nsigs { // a signature whose hint vector contains position 255 resp. 0 (corner cases of the ordering check)
			want := byte(255 * (nsigs + 1 - s))
			for try := 0; try < 200 && !hasPos(sig, want); try++ {
				r.Read(msg)
				sig, _ = d.Sign(msg)
			}
		}
		tr.Emit(check("genuine", msg, sig, &pk, false, true))
		tr.Emit(check("wrong-message", append(dup(msg), 0), sig, &pk, true, true))
		tr.Emit(check("empty-message", []byte{}, sig, &pk, true, true))
		tr.Emit(check("other-key", msg, sig, &pk2, true, true))
		osig, _ := d2.Sign(msg)
		tr.Emit(check("other-keys-signature", msg, osig, &pk, true, true))
		// the caller's arrays changed IN PLACE between calls (same pointer, same slice): the verdict is a
		// function of the contents at the call, not of the address or of what an earlier call saw there
		{
			p := pk
			m := dup(msg)
			tr.Emit(check("inplace-genuine", m, sig, &p, false, true))
			off, bit := r.Intn(len(p)), byte(1)<<uint(r.Intn(8))
			p[off] ^= bit
			tr.Emit(check("inplace-key-changed", m, sig, &p, true, true))
			p[off] ^= bit
			tr.Emit(check("inplace-key-restored", m, sig, &p, false, true))
			p = pk2
			tr.Emit(check("inplace-key-replaced", m, sig, &p, true, true))
			p = pk
			if len(m) > 0 {
				mo := r.Intn(len(m))
				m[mo] ^= bit
				tr.Emit(check("inplace-message-changed", m, sig, &p, true, true))
				m[mo] ^= bit
			}
			tr.Emit(check("inplace-restored", m, sig, &p, false, true))
		}

		// every single-bit flip of the signature (quick: c, hint section, one bit per z coefficient)
		flipSig := func(off int) {
			e := vEvent{Ev: "flipgroup", Class: "bitflip", Modified: true, Genuine: true, Target: "sig", Off: off, Hint: ints(sig[hintOff:]), MaxZ: maxZOf(sig[:])}
			for bit := uint(0); bit < 8; bit++ {
				c := sig
				c[off] ^= 1 << bit
				e.Verifies = append(e.Verifies, dilithium.Verify(msg, c, &pk))
				e.OpenNils = append(e.OpenNils, dilithium.Open(append(dup(c[:]), msg...), &pk) == nil)
			}
			tr.Emit(e)
		}
		var offs []int
		for off := 0; off < dilithium.CryptoBytes; off++ {
			if tier == "thorough" || off < 32 || off >= hintOff || (off-32)%5 == (s*2+off/640)%5 && r.Intn(3) == 0 {
				offs = append(offs, off)
			}
		}
		// parallel evaluation, ordered emission
		evs := make([]vEvent, len(offs))
		var wg sync.WaitGroup
		nw := runtime.NumCPU()
		for w := 0; w < nw; w++ {
			w := w
			wg.Add(1)
			go func() {
				defer wg.Done()
				for i := w; i < len(offs); i += nw {
					off := offs[i]
					e := vEvent{Ev: "flipgroup", Class: "bitflip", Modified: true, Genuine: true, Target: "sig", Off: off, Hint: ints(sig[hintOff:]), MaxZ: maxZOf(sig[:])}
					for bit := uint(0); bit < 8; bit++ {
						c := sig
						c[off] ^= 1 << bit
						e.Verifies = append(e.Verifies, dilithium.Verify(msg, c, &pk))
						e.OpenNils = append(e.OpenNils, dilithium.Open(append(dup(c[:]), msg...), &pk) == nil)
					}
					evs[i] = e
				}
			}()
		}
		wg.Wait()
		for _, e := range evs {
			tr.Emit(e)
		}
		_ = flipSig
		// public key bits
		var pkOffs []int
		for off := 0; off < dilithium.CryptoPublicKeyBytes; off++ {
			if tier == "thorough" || off < 40 || r.Intn(16) == 0 {
				pkOffs = append(pkOffs, off)
			}
		}
		pevs := make([]vEvent, len(pkOffs))
		for w := 0; w < nw; w++ {
			w := w
			wg.Add(1)
			go func() {
				defer wg.Done()
				for i := w; i < len(pkOffs); i += nw {
					off := pkOffs[i]
					e := vEvent{Ev: "flipgroup", Class: "bitflip", Modified: true, Genuine: true, Target: "pk", Off: off, Hint: ints(sig[hintOff:]), MaxZ: maxZOf(sig[:])}
					for bit := uint(0); bit < 8; bit++ {
						p := pk
						p[off] ^= 1 << bit
						e.Verifies = append(e.Verifies, dilithium.Verify(msg, sig, &p))
						e.OpenNils = append(e.OpenNils, dilithium.Open(append(dup(sig[:]), msg...), &p) == nil)
					}
					pevs[i] = e
				}
			}()
		}
		wg.Wait()
		for _, e := range pevs {
			tr.Emit(e)
		}

		// hint section: same vector, non-canonical encoding; and other corruptions
		h := sig[hintOff:]
		cnt := func(i int) int {
			if i < 0 {
				return 0
			}
			return int(h[omega+i])
		}
		emitHint := func(class string, mut func(b []byte)) {
			c := sig
			mut(c[hintOff:])
			if c == sig {
				return
			}
			classes[class]++
			tr.Emit(check(class, msg, c, &pk, true, true))
		}
		// the same hint vector written non-canonically, at EVERY position: adjacent swap, duplicate inserted
		for row := 0; row < 8; row++ {
			lo, hi := cnt(row-1), cnt(row)
			for p := lo; p < hi; p++ {
				p, row := p, row
				if p+1 < hi {
					emitHint("hint-swap-adjacent-all", func(b []byte) { b[p], b[p+1] = b[p+1], b[p] })
				}
				if cnt(7) < omega {
					emitHint("hint-duplicate-inserted-all", func(b []byte) {
						total := cnt(7)
						copy(b[p+1:total+1], append([]byte{}, b[p:total]...))
						for i := row; i < 8; i++ {
							b[omega+i]++
						}
					})
				}
			}
		}
		for row := 0; row < 8; row++ {
			lo, hi := cnt(row-1), cnt(row)
			if hi-lo >= 2 {
				p := lo + r.Intn(hi-lo-1)
				emitHint("hint-swap-adjacent", func(b []byte) { b[p], b[p+1] = b[p+1], b[p] })
				emitHint("hint-duplicate-index", func(b []byte) { b[p+1] = b[p] })
				emitHint("hint-first-last-swapped", func(b []byte) { b[lo], b[hi-1] = b[hi-1], b[lo] })
			}
			if hi-lo >= 1 {
				emitHint("hint-index-changed", func(b []byte) { b[lo] ^= 0x80 })
			}
			if row > 0 && cnt(row-1) > 0 {
				emitHint("hint-count-below-previous", func(b []byte) { b[omega+row] = byte(cnt(row-1) - 1) })
			}
			emitHint("hint-count-76", func(b []byte) { b[omega+row] = omega + 1 })
			emitHint("hint-count-255", func(b []byte) { b[omega+row] = 255 })
			if hi < omega {
				emitHint("hint-count-plus-one", func(b []byte) { // claims one more (zero-valued) index in this row only
					b[omega+row] = byte(hi + 1)
				})
			}
		}
		if cnt(7) < omega {
			for row := 0; row < 8; row++ {
				lo, hi := cnt(row-1), cnt(row)
				if hi == lo {
					continue
				}
				p := lo + r.Intn(hi-lo)
				row := row
				emitHint("hint-duplicate-inserted", func(b []byte) { // same vector: b[p] listed twice, everything after shifted, counts of rows >= row incremented
					total := cnt(7)
					copy(b[p+1:total+1], append([]byte{}, b[p:total]...))
					for i := row; i < 8; i++ {
						b[omega+i]++
					}
				})
			}
		}
		last := cnt(7)
		for _, p := range []int{last, (last + omega) / 2, omega - 1} {
			if p >= last && p < omega {
				p := p
				emitHint("hint-nonzero-padding", func(b []byte) { b[p] = byte(1 + r.Intn(255)) })
			}
		}
		// several padding bytes at once: values that cancel under +, xor, or a carry-less accumulator
		if omega-last >= 2 {
			for _, pat := range [][]byte{{0x80, 0x80}, {0x01, 0xff}, {0x55, 0x55}, {0x40, 0x40, 0x80}, {0xff, 0xff}, {0x10, 0xf0}, {0x7f, 0x81}} {
				if omega-last < len(pat) {
					continue
				}
				pat := pat
				emitHint("hint-padding-cancelling", func(b []byte) { copy(b[last:], pat) })
				emitHint("hint-padding-cancelling-end", func(b []byte) { copy(b[omega-len(pat):omega], pat) })
			}
			emitHint("hint-padding-all-0x80", func(b []byte) {
				n := (omega - last) &^ 1
				for i := 0; i < n; i++ {
					b[last+i] = 0x80
				}
			})
			emitHint("hint-padding-random", func(b []byte) { r.Read(b[last:omega]) })
		}
		if last < omega {
			emitHint("hint-all-counts-plus-one", func(b []byte) { // appends index 0 (a padding byte) to the last row
				b[omega+7] = byte(last + 1)
			})
		}
		emitHint("hint-zeroed", func(b []byte) {
			for i := range b {
				b[i] = 0
			}
		})
		emitHint("hint-random", func(b []byte) { r.Read(b) })
	}
	// message-length sweep: for every length the genuine pair verifies and no variant of the message does
	maxLen := 300
	if tier == "thorough" {
		maxLen = 1200
	}
	lens := []int{}
	for L := 0; L <= maxLen; L++ {
		lens = append(lens, L)
	}
	for _, c := range []int{640, 1024, 2592, 4595, 4864, 2 * 4595} {
		for dd := -34; dd <= 3; dd++ {
			if c+dd > maxLen {
				lens = append(lens, c+dd)
			}
		}
	}
	for _, L := range lens {
		msg := make([]byte, L)
		r.Read(msg)
		sig, _ := d.Sign(msg)
		tr.Emit(check("len-genuine", msg, sig, &pk, false, true))
		vars := [][]byte{append(dup(msg), 0), append(dup(msg), byte(1+r.Intn(255)))}
		if L > 0 {
			a := dup(msg)
			a[L-1] ^= 1
			b := dup(msg)
			b[0] ^= 0x80
			c := dup(msg)
			c[r.Intn(L)] ^= byte(1 << uint(r.Intn(8)))
			vars = append(vars, a, b, c, msg[:L-1])
		}
		for _, v := range vars {
			tr.Emit(check("len-message-variant", v, sig, &pk, true, true))
		}
	}
	// signatures made with the secret key by a signer that skips one signing-side test
	nskip := 4
	if tier == "thorough" {
		nskip = 40
	}
	got := map[string]int{}
	for q := 0; q < nskip; q++ {
		msg := make([]byte, 8+r.Intn(40))
		r.Read(msg)
		for _, sc := range []struct {
			name string
			mask int
		}{
			{"skip-z-test", dilithium.VerifSkipZ | dilithium.VerifWantZFail},
			{"skip-z-test-edge", dilithium.VerifSkipZ | dilithium.VerifWantZFail | dilithium.VerifWantZEdge},
			{"skip-w0-test", dilithium.VerifSkipW0 | dilithium.VerifWantW0Fail},
			{"skip-ct0-test", dilithium.VerifSkipCt0 | dilithium.VerifWantC0Fail},
			{"skip-nothing", 0},
		} {
			maxIter := 400
			if sc.name == "skip-ct0-test" || sc.name == "skip-z-test-edge" {
				maxIter = 4000
			}
			sig, it, mz, mw, mc, hints, ok := dilithium.VerifSignSkipping(msg, &sk, sc.mask, maxIter)
			if !ok {
				continue
			}
			got[sc.name]++
			e := check(sc.name, msg, sig, &pk, sc.name == "skip-z-test" || sc.name == "skip-z-test-edge", sc.name == "skip-nothing")
			e.Ev = "skipcase"
			e.Iter, e.MaxW0, e.MaxCt0, e.Hints = it, int(mw), int(mc), int(hints)
			if int(mz) != e.MaxZ {
				e.Class += "/harness-z-decoder-disagrees"
			}
			// a z-out-of-range signature is "modified" in the sense that it is not what Sign may output;
			// w0/ct0-skipped signatures have no specified verdict (recorded only)
			if sc.name == "skip-w0-test" || sc.name == "skip-ct0-test" {
				e.Ev = "skiprecord"
			}
			tr.Emit(e)
		}
	}
	// a signer that holds the key and changes ONE bit of the challenge seed after hashing, then derives the
	// challenge, z and the hints from the changed seed: everything in the signature is consistent except that
	// c~ is not H(mu || w1). Every byte position of c~.
	for b := 0; b < 32; b++ {
		msg := make([]byte, 1+r.Intn(60))
		r.Read(msg)
		b, bit := b, byte(1)<<uint(r.Intn(8))
		fired := false
		dilithium.VerifSignAlterC = func(c *[32]uint8) { c[b] ^= bit; fired = true }
		sig, _, _, _, _, _, ok := dilithium.VerifSignSkipping(msg, &sk, 0, 400)
		dilithium.VerifSignAlterC = nil
		if !ok || !fired {
			continue
		}
		got["challenge-seed-altered"]++
		e := check("challenge-seed-altered-byte-"+strconv.Itoa(b), msg, sig, &pk, true, false)
		tr.Emit(e)
	}
	extra["hint_classes"] = classes
	extra["skipping_signer"] = got
}
