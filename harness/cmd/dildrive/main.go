// dildrive drives the real Dilithium code and records traces for
// spec/TraceDilithiumSign.tla (C03), TraceDilithiumVerify.tla (C05),
// TraceDilMath.tla (C12), TraceDilPack.tla (C13) and TraceDilithiumEq.tla (C07).
package main

import (
	"crypto/sha256"
	"encoding/hex"
	"flag"
	"fmt"
	"math/rand"
	"os"
	"runtime"
	"time"

	"verifharness/trace"
)

func call(f func()) (res string) {
	defer func() {
		if r := recover(); r != nil {
			switch v := r.(type) {
			case string:
				res = "refused:" + v
			case runtime.Error:
				res = "runtime:" + v.Error()
			case error:
				res = "panic-error:" + v.Error()
			default:
				res = fmt.Sprintf("panic-other:%v", v)
			}
		}
	}()
	f()
	return "ok"
}

func dup(b []byte) []byte {
	c := make([]byte, len(b))
	copy(c, b)
	return c
}

func dg(b []byte) string { h := sha256.Sum256(b); return hex.EncodeToString(h[:10]) }

func ints(b []byte) []int {
	o := make([]int, len(b))
	for i, v := range b {
		o[i] = int(v)
	}
	return o
}

func ints32(b []int32) []int {
	o := make([]int, len(b))
	for i, v := range b {
		o[i] = int(v)
	}
	return o
}

func main() {
	prop := flag.String("prop", "C03", "C03 | C05 | C07 | C12 | C13")
	tier := flag.String("tier", "quick", "quick | thorough")
	seed := flag.Int64("seed", 1, "VERIF_SEED")
	out := flag.String("out", "", "trace file")
	statsOut := flag.String("stats", "", "stats json")
	flag.Parse()
	t0 := time.Now()
	r := rand.New(rand.NewSource(*seed*32452843 + int64((*prop)[2])*131 + int64((*prop)[1])))
	tr := &trace.Buf{}
	extra := map[string]interface{}{}
	switch *prop {
	case "C03":
		c03(r, *tier, tr, extra)
	case "C05":
		c05(r, *tier, tr, extra)
	case "C12":
		c12(r, *tier, tr, extra)
	case "C13":
		c13(r, *tier, tr, extra)
	default:
		fmt.Fprintln(os.Stderr, "unknown prop")
		os.Exit(2)
	}
	if err := tr.WriteFile(*out); err != nil {
		fmt.Fprintln(os.Stderr, err)
		os.Exit(2)
	}
	if *statsOut != "" {
		extra["events"] = tr.N
		extra["wall_s"] = time.Since(t0).Seconds()
		trace.WriteJSON(*statsOut, extra)
	}
}
