package main

import (
	"math/rand"
	"runtime"
	"sync"

	"github.com/theQRL/go-qrllib/dilithium"

	"verifharness/trace"
)

// C12: complete function tables of the Dilithium arithmetic, compressed into
// affine segments, plus Montgomery / NTT samples. Events for spec/TraceDilMath.tla.

type segEvent struct {
	Ev       string  `json:"ev"`
	Fn       string  `json:"fn"`
	P        int     `json:"p"` // parameter (a1 for makehint, bound for chknorm)
	Lo       int64   `json:"lo"`
	Hi       int64   `json:"hi"`
	C        []int64 `json:"c"`
	S        []int64 `json:"s"`
	Covered  int64   `json:"covered"`
	Expected int64   `json:"expected"`
	Segments int     `json:"segments"`
}

type seg struct {
	lo, hi int64
	c, s   []int64
}

// compress evaluates f on [lo, hi] and returns maximal segments on which every output is
// c + s*a with s in {0,1}. The result is re-expanded and compared before it is returned.
func compress(lo, hi int64, nout int, f func(a int64, out []int64)) []seg {
	var segs []seg
	out := make([]int64, nout)
	var cur *seg
	npts := int64(0)
	for a := lo; a <= hi; a++ {
		f(a, out)
		if cur != nil {
			if npts == 1 {
				ok := true
				for k := 0; k < nout; k++ {
					d := out[k] - (cur.c[k] + cur.s[k]*cur.lo)
					if d != 0 && d != 1 {
						ok = false
					}
				}
				if ok {
					for k := 0; k < nout; k++ {
						v0 := cur.c[k] // value at cur.lo (slope still 0)
						cur.s[k] = out[k] - v0
						cur.c[k] = v0 - cur.s[k]*cur.lo
					}
					cur.hi = a
					npts++
					continue
				}
			} else {
				ok := true
				for k := 0; k < nout; k++ {
					if out[k] != cur.c[k]+cur.s[k]*a {
						ok = false
					}
				}
				if ok {
					cur.hi = a
					npts++
					continue
				}
			}
		}
		segs = append(segs, seg{lo: a, hi: a, c: append([]int64{}, out...), s: make([]int64, nout)})
		cur = &segs[len(segs)-1]
		npts = 1
	}
	return segs
}

func table(tr *trace.Buf, fn string, p int, lo, hi int64, nout int, f func(a int64, out []int64)) {
	nw := int64(runtime.NumCPU())
	n := hi - lo + 1
	chunk := (n + nw - 1) / nw
	parts := make([][]seg, nw)
	var wg sync.WaitGroup
	for w := int64(0); w < nw; w++ {
		w := w
		wg.Add(1)
		go func() {
			defer wg.Done()
			a, b := lo+w*chunk, lo+(w+1)*chunk-1
			if b > hi {
				b = hi
			}
			if a <= b {
				parts[w] = compress(a, b, nout, f)
			}
		}()
	}
	wg.Wait()
	covered := int64(0)
	nseg := 0
	next := lo
	for _, ps := range parts {
		for _, s := range ps {
			if s.lo != next {
				covered = -1 << 40
			}
			next = s.hi + 1
			covered += s.hi - s.lo + 1
			nseg++
			tr.Emit(segEvent{Ev: "seg", Fn: fn, P: p, Lo: s.lo, Hi: s.hi, C: s.c, S: s.s})
		}
	}
	tr.Emit(segEvent{Ev: "cover", Fn: fn, P: p, Lo: lo, Hi: hi, Covered: covered, Expected: n, Segments: nseg, C: []int64{}, S: []int64{}})
}

type montEvent struct {
	Ev    string `json:"ev"`
	Class string `json:"class"`
	Sign  int    `json:"sign"`
	A2    int64  `json:"a2"`
	A1    int64  `json:"a1"`
	A0    int64  `json:"a0"`
	R     int    `json:"r"`
}

type nttEvent struct {
	Ev    string `json:"ev"`
	Class string `json:"class"`
	A     []int  `json:"a"`
	B     []int  `json:"b"`
	C     []int  `json:"c"`
	Pos   []int  `json:"pos"`
	Z     []int  `json:"z,omitempty"`
}

func c12(r *rand.Rand, tier string, tr *trace.Buf, extra map[string]interface{}) {
	const Q = 8380417
	const G2 = (Q - 1) / 32
	table(tr, "decompose", 0, 0, Q-1, 2, func(a int64, out []int64) {
		a1, a0 := dilithium.VerifDecompose(int32(a))
		out[0], out[1] = int64(a1), int64(a0)
	})
	table(tr, "power2round", 0, 0, Q-1, 2, func(a int64, out []int64) {
		a1, a0 := dilithium.VerifPower2Round(int32(a))
		out[0], out[1] = int64(a1), int64(a0)
	})
	table(tr, "usehint0", 0, 0, Q-1, 1, func(a int64, out []int64) { out[0] = int64(dilithium.VerifUseHint(int32(a), 0)) })
	table(tr, "usehint1", 0, 0, Q-1, 1, func(a int64, out []int64) { out[0] = int64(dilithium.VerifUseHint(int32(a), 1)) })
	table(tr, "caddq", 0, -(Q - 1), Q-1, 1, func(a int64, out []int64) { out[0] = int64(dilithium.VerifCAddQ(int32(a))) })
	for a1 := 0; a1 < 16; a1++ {
		a1 := a1
		table(tr, "makehint", a1, -2*G2+1, 2*G2-1, 1, func(a int64, out []int64) { out[0] = int64(dilithium.VerifMakeHint(int32(a), int32(a1))) })
	}
	for _, b := range []int{(1 << 19) - 120, G2 - 120, G2, (Q - 1) / 8, (Q-1)/8 + 1} {
		b := b
		table(tr, "chknorm", b, -6283009, 6283008, 1, func(a int64, out []int64) {
			var p dilithium.VerifPoly
			p[int(a&255)] = int32(a)
			out[0] = int64(dilithium.VerifChkNorm(&p, int32(b)))
		})
	}
	// reduce32 on its whole documented domain
	table(tr, "reduce32", 0, -(1 << 31), (1<<31)-(1<<22)-1, 1, func(a int64, out []int64) { out[0] = int64(dilithium.VerifReduce32(int32(a))) })

	// Montgomery reduction: operands at the domain ends, around multiples of 2^32 and q*2^32, products from a real NTT, random
	emitMont := func(class string, a int64) {
		rr := dilithium.VerifMontgomeryReduce(a)
		sign := 1
		m := a
		if a < 0 {
			sign = -1
			m = -a
		}
		tr.Emit(montEvent{Ev: "mont", Class: class, Sign: sign, A2: m >> 40, A1: (m >> 20) & 0xfffff, A0: m & 0xfffff, R: int(rr)})
	}
	lim := int64(1) << 31 * Q
	for _, d := range []int64{0, 1, 2, 3, 1 << 20, 1 << 32} {
		emitMont("domain-end", -lim+d)
		emitMont("domain-end", lim-1-d)
		emitMont("zero", d)
		emitMont("zero", -d)
	}
	for k := int64(-8); k <= 8; k++ {
		for _, d := range []int64{-1, 0, 1} {
			emitMont("multiple-of-2^32", k<<32+d)
			if k > -8 && k < 8 {
				emitMont("multiple-of-q*2^28", k*Q<<28+d) // |a| < 2^31 * q
			}
			emitMont("multiple-of-q", k*Q*(1<<20)+d)
		}
	}
	zs := dilithium.VerifZetas()
	nrand := 2000
	if tier == "thorough" {
		nrand = 40000
	}
	for i := 0; i < nrand; i++ {
		z := int64(zs[1+r.Intn(255)])
		c := int64(r.Intn(2*9*Q) - 9*Q) // coefficients grow up to 9q inside the NTT
		emitMont("zeta-times-coefficient", z*c)
		emitMont("random", r.Int63n(2*lim)-lim)
		emitMont("product-of-int32", int64(int32(r.Uint32()))*int64(int32(r.Uint32()))%lim)
	}
	// zetas
	tr.Emit(nttEvent{Ev: "zetas", Z: ints32(zs[:]), A: []int{}, B: []int{}, C: []int{}, Pos: []int{}})
	// NTT products
	mk := func(class string, gen func(i int) int32) dilithium.VerifPoly {
		var p dilithium.VerifPoly
		for i := range p {
			p[i] = gen(i)
		}
		return p
	}
	type pc struct {
		class string
		a, b  dilithium.VerifPoly
	}
	var cases []pc
	rnd := func(i int) int32 { return int32(r.Intn(Q)) }
	cases = append(cases,
		pc{"random", mk("", rnd), mk("", rnd)},
		pc{"all-q-1", mk("", func(i int) int32 { return Q - 1 }), mk("", func(i int) int32 { return Q - 1 })},
		pc{"all-minus-q+1", mk("", func(i int) int32 { return -(Q - 1) }), mk("", func(i int) int32 { return Q - 1 })},
		pc{"unit-times-random", mk("", func(i int) int32 {
			if i == 1 {
				return 1
			}
			return 0
		}), mk("", rnd)},
		pc{"x255-times-x255", mk("", func(i int) int32 {
			if i == 255 {
				return 1
			}
			return 0
		}), mk("", func(i int) int32 {
			if i == 255 {
				return 1
			}
			return 0
		})},
		pc{"challenge-like", mk("", func(i int) int32 {
			if i%4 == 0 {
				return int32(1 - 2*(i/4%2))
			}
			return 0
		}), mk("", func(i int) int32 { return int32(r.Intn(5) - 2) })},
	)
	// factors of X^256 + 1: b = X^s - root^(s(2k+1)) vanishes on 256/(256/s) .. a whole subtree of the transform,
	// so the pointwise product has blocks of exact zeros (zero operands of butterflies and of products)
	powmod := func(b, e int64) int64 {
		res, x := int64(1), b%Q
		for ; e > 0; e >>= 1 {
			if e&1 == 1 {
				res = res * x % Q
			}
			x = x * x % Q
		}
		return res
	}
	for _, sh := range []int{128, 64, 32, 16, 8, 4, 2, 1} {
		for _, k := range []int{0, r.Intn(256 / sh)} {
			c := powmod(1753, int64(sh*(2*k+1)))
			if c > Q/2 {
				c -= Q
			}
			sh, c := sh, c
			cases = append(cases, pc{"vanishing-factor", mk("", rnd), mk("", func(i int) int32 {
				switch i {
				case sh:
					return 1
				case 0:
					return int32(-c)
				}
				return 0
			})})
		}
	}
	nmore := 2
	if tier == "thorough" {
		nmore = 10
	}
	for i := 0; i < nmore; i++ {
		cases = append(cases, pc{"random", mk("", rnd), mk("", rnd)})
	}
	for ci, c := range cases {
		a, b := c.a, c.b
		na, nb := a, b
		dilithium.VerifNTT(&na)
		dilithium.VerifNTT(&nb)
		var prod dilithium.VerifPoly
		for i := range prod { // the destination is not fresh: the library reuses destination polynomials
			prod[i] = int32(r.Intn(2*Q-1) - (Q - 1))
		}
		dilithium.VerifPointwiseMontgomeryInto(&prod, &na, &nb)
		dilithium.VerifPolyReduce(&prod)
		dilithium.VerifInvNTTToMont(&prod)
		var pos []int
		if tier == "thorough" && ci < 4 {
			for k := 0; k < 256; k++ {
				pos = append(pos, k)
			}
		} else {
			pos = []int{0, 1, 127, 128, 254, 255}
			for k := 0; k < 10; k++ {
				pos = append(pos, r.Intn(256))
			}
		}
		tr.Emit(nttEvent{Ev: "ntt", Class: c.class, A: ints32(a[:]), B: ints32(b[:]), C: ints32(prod[:]), Pos: pos})
	}
}
