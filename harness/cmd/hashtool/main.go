// hashtool is the fallback hash oracle of the equational TLA+ specifications:
// TLC calls it (IOExec) for a hash input that is not in the recorded table.
//
//	hashtool <in.json> <out.json>     in.json = [alg, outLen, [input bytes]]
//
// It uses crypto/sha256 and golang.org/x/crypto/sha3 directly.
package main

import (
	"encoding/json"
	"fmt"
	"os"

	"verifharness/oracle"
)

func main() {
	if len(os.Args) != 3 {
		fmt.Fprintln(os.Stderr, "usage: hashtool in.json out.json")
		os.Exit(2)
	}
	raw, err := os.ReadFile(os.Args[1])
	if err != nil {
		fmt.Fprintln(os.Stderr, err)
		os.Exit(2)
	}
	var req []json.RawMessage
	var alg, outLen int
	var in []int
	if json.Unmarshal(raw, &req) != nil || len(req) != 3 || json.Unmarshal(req[0], &alg) != nil ||
		json.Unmarshal(req[1], &outLen) != nil || json.Unmarshal(req[2], &in) != nil {
		fmt.Fprintln(os.Stderr, "bad request")
		os.Exit(2)
	}
	b := make([]byte, len(in))
	for i, v := range in {
		b[i] = byte(v)
	}
	out, err := oracle.Hash(alg, b, outLen)
	if err != nil {
		fmt.Fprintln(os.Stderr, err)
		os.Exit(2)
	}
	o := make([]int, len(out))
	for i, v := range out {
		o[i] = int(v)
	}
	if lg := os.Getenv("VERIF_ORACLE_LOG"); lg != "" {
		if f, err := os.OpenFile(lg, os.O_APPEND|os.O_CREATE|os.O_WRONLY, 0o644); err == nil {
			fmt.Fprintf(f, "%d %d\n", alg, len(in))
			f.Close()
		}
	}
	j, _ := json.Marshal(o)
	if err := os.WriteFile(os.Args[2], j, 0o644); err != nil {
		fmt.Fprintln(os.Stderr, err)
		os.Exit(2)
	}
}
