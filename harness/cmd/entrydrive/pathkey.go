package main

import (
	"math/rand"

	"verifharness/pathkey"
)

// pathTriple / pathKey: see verifharness/pathkey (shared with concdrive)
type pathTriple struct {
	h, hf, idx int
	msg, sig   []byte
	pk         [67]uint8
}

func pathKey(r *rand.Rand, h, hf int, idx uint32, declared int, msgLen int) pathTriple {
	t := pathkey.Make(r, h, hf, idx, declared, msgLen)
	return pathTriple{t.H, t.Hf, t.Idx, t.Msg, t.Sig, t.Pk}
}
