package main

import (
	"encoding/json"
	"fmt"
	"math/rand"
	"os"
	"runtime"
	"strconv"
	"strings"
	"sync"
	"time"

	"github.com/theQRL/go-qrllib/common"
	"github.com/theQRL/go-qrllib/dilithium"
	"github.com/theQRL/go-qrllib/misc"
	"github.com/theQRL/go-qrllib/qrl"
	"github.com/theQRL/go-qrllib/xmss"

	"verifharness/trace"
)

// C14: entry points fed with untrusted bytes. Events for spec/TraceEntry.tla.

type eEvent struct {
	Ev      string   `json:"ev"`
	W       int      `json:"w"`
	SigLen  int      `json:"siglen"`
	B0      int      `json:"b0"`
	B1s     []int    `json:"b1s,omitempty"`
	Lens    []int    `json:"lens,omitempty"`
	Content string   `json:"content,omitempty"`
	Outs    []string `json:"outs,omitempty"`
	Size    int      `json:"size"`
	Phrase  []int    `json:"phrase"`
	Out     string   `json:"out,omitempty"`
	Kinds   []string `json:"kinds"`
	Nil     []bool   `json:"nil,omitempty"` // dopen: result was nil
	Intact  bool     `json:"intact"`
}

const callDeadline = 20 * time.Second

// guarded runs f with panic classification and a deadline.
func guarded(f func()) string {
	ch := make(chan string, 1)
	go func() { ch <- call(f) }()
	select {
	case r := <-ch:
		if r == "ok" {
			return "value"
		}
		return r
	case <-time.After(callDeadline):
		return "timeout"
	}
}

func kindOf(o string) string {
	switch {
	case o == "value":
		return "value"
	case strings.HasPrefix(o, "refused:"):
		return "refused"
	case strings.HasPrefix(o, "runtime:"):
		return "runtime"
	case strings.HasPrefix(o, "panic-error:"):
		return "panic-error"
	case o == "timeout":
		return "timeout"
	}
	return "panic-other"
}

func (e *eEvent) close() {
	if e.Phrase == nil {
		e.Phrase = []int{}
	}
	if e.Out != "" {
		e.Kinds = []string{kindOf(e.Out)}
		return
	}
	for _, o := range e.Outs {
		e.Kinds = append(e.Kinds, kindOf(o))
	}
}

func fill(b []byte, content string, r *rand.Rand) {
	switch content {
	case "random":
		r.Read(b)
	case "zeros":
		for i := range b {
			b[i] = 0
		}
	case "ones":
		for i := range b {
			b[i] = 0xff
		}
	}
}

type classes struct {
	XVerify []struct {
		W      int `json:"w"`
		SigLen int `json:"siglen"`
		B0     int `json:"b0"`
	} `json:"xverify"`
	DOpenLens []int `json:"dopenlens"`
}

func c14(r *rand.Rand, tier string, classFile string, tr *trace.Buf) {
	raw, err := os.ReadFile(classFile)
	if err != nil {
		fmt.Fprintln(os.Stderr, err)
		os.Exit(2)
	}
	var cl classes
	if err := json.Unmarshal(raw, &cl); err != nil {
		fmt.Fprintln(os.Stderr, err)
		os.Exit(2)
	}
	contents := []string{"random", "zeros"}
	if tier == "thorough" {
		contents = []string{"random", "zeros", "ones", "random", "random", "random"}
	}
	// genuine material for the "valid signature with one field random" content
	var seed [48]uint8
	r.Read(seed[:])
	gx := xmss.NewXMSSFromSeed(seed, 4, xmss.SHAKE_128, common.SHA256_2X)
	gmsg := []byte("c14 genuine")
	gsig, _ := gx.Sign(gmsg)
	gpk := gx.GetPK()

	// ---- xmss verify: every class from the specification
	b1s := []int{}
	for hn := 0; hn < 16; hn++ {
		b1s = append(b1s, hn)
	}
	b1s = append(b1s, 0x72, 0xf2, 0x13)
	evs := make([][]eEvent, len(cl.XVerify))
	var wg sync.WaitGroup
	sem := make(chan struct{}, runtime.NumCPU())
	for ci, c := range cl.XVerify {
		ci, c := ci, c
		rr := rand.New(rand.NewSource(r.Int63()))
		wg.Add(1)
		sem <- struct{}{}
		go func() {
			defer wg.Done()
			defer func() { <-sem }()
			for _, content := range contents {
				e := eEvent{Ev: "xverify", W: c.W, SigLen: c.SigLen, B0: c.B0, B1s: b1s, Content: content, Intact: true}
				// signature and message live in one buffer, each followed by guard bytes within its capacity
				const guard = 48
				mlen := rr.Intn(64)
				whole := make([]byte, c.SigLen+guard+mlen+guard)
				for i := range whole {
					whole[i] = 0x5a
				}
				sig := whole[:c.SigLen]
				var pk [67]uint8
				msg := whole[c.SigLen+guard : c.SigLen+guard+mlen]
				fill(sig, content, rr)
				fill(pk[:], content, rr)
				rr.Read(msg)
				// a structurally plausible index (so that verification runs to the end): top bit of the tree set
				if c.SigLen >= 2180+32 {
					hh := uint((c.SigLen - 2180) / 32)
					if hh >= 1 && hh <= 30 {
						v := uint32(1)<<(hh-1) | uint32(rr.Intn(1<<(hh-1)))
						if content == "random" {
							sig[0], sig[1], sig[2], sig[3] = byte(v>>24), byte(v>>16), byte(v>>8), byte(v)
						}
					}
				}
				w0 := dup(whole)
				pk[0] = uint8(c.B0)
				for _, b1 := range b1s {
					pk[1] = uint8(b1)
					s0, p0, m0 := dup(sig), pk, dup(msg)
					o := guarded(func() { xmss.VerifyWithCustomWOTSParamW(msg, sig, pk, uint32(c.W)) })
					if c.W == 16 {
						o2 := guarded(func() { xmss.Verify(msg, sig, pk) })
						if o2 != o {
							o = "differs-from-Verify:" + o + "|" + o2
						}
					}
					e.Outs = append(e.Outs, o)
					e.Intact = e.Intact && string(s0) == string(sig) && p0 == pk && string(m0) == string(msg) && string(w0) == string(whole)
				}
				evs[ci] = append(evs[ci], e)
			}
		}()
	}
	wg.Wait()
	for _, l := range evs {
		for _, e := range l {
			e.close()
			tr.Emit(e)
		}
	}
	// the Winternitz parameters one after the other in ONE goroutine, in every order (work areas kept between calls
	// are sized by whoever came first); signatures of the right size for height 4, so every call reaches the WOTS stage
	for _, perm := range [][]int{{256, 16, 4}, {256, 4, 16}, {16, 256, 4}, {16, 4, 256}, {4, 16, 256}, {4, 256, 16}} {
		for _, w := range append(perm, perm...) {
			base := map[int]int{4: 4292, 16: 2180, 256: 1124}[w]
			sig := make([]byte, base+32*4)
			r.Read(sig)
			sig[0], sig[1], sig[2], sig[3] = 0, 0, 0, byte(r.Intn(16))
			var pk [67]uint8
			r.Read(pk[:])
			hf := r.Intn(3)
			pk[0] = uint8(hf)
			msg := make([]byte, r.Intn(40))
			r.Read(msg)
			e := eEvent{Ev: "xverify", W: w, SigLen: len(sig), B0: hf, B1s: []int{2}, Content: "w-sequence", Intact: true}
			pk[1] = 2
			s0, p0, m0 := dup(sig), pk, dup(msg)
			e.Outs = append(e.Outs, guarded(func() { xmss.VerifyWithCustomWOTSParamW(msg, sig, pk, uint32(w)) }))
			e.Intact = string(s0) == string(sig) && p0 == pk && string(m0) == string(msg)
			e.close()
			tr.Emit(e)
		}
	}
	// genuine signature with one region replaced by random bytes, all descriptor height nibbles
	for _, rg := range [][2]int{{0, 4}, {4, 36}, {36, 2180}, {2180, 2308}, {0, 2308}} {
		sig := dup(gsig)
		r.Read(sig[rg[0]:rg[1]])
		e := eEvent{Ev: "xverify", W: 16, SigLen: len(sig), B0: int(gpk[0]), B1s: b1s, Content: "genuine-one-field-random", Intact: true}
		for _, b1 := range b1s {
			pk := gpk
			pk[1] = uint8(b1)
			s0 := dup(sig)
			e.Outs = append(e.Outs, guarded(func() { xmss.Verify(gmsg, sig, pk) }))
			e.Intact = e.Intact && string(s0) == string(sig)
		}
		e.close()
		tr.Emit(e)
	}

	// message lengths: the message is untrusted too. Lengths around every block boundary of the hash functions
	// (SHA-256 64, SHAKE-128 168, SHAKE-256 136; the message hash prepends 128 bytes), around powers of two,
	// seeded random ones, a few large ones; thorough: every length up to 1400
	for hf := 0; hf < 3; hf++ {
		sig := make([]byte, 2308)
		r.Read(sig)
		var pk [67]uint8
		r.Read(pk[:])
		pk[0] = uint8(hf)
		for _, L := range sweepLengths(r, tier) {
			msg := make([]byte, L)
			r.Read(msg)
			e := eEvent{Ev: "xverify", W: 16, SigLen: len(sig), B0: hf, B1s: []int{2, 3}, Content: "msglen-" + strconv.Itoa(L), Intact: true}
			for _, b1 := range e.B1s {
				pk[1] = uint8(b1)
				s0, p0, m0 := dup(sig), pk, dup(msg)
				e.Outs = append(e.Outs, guarded(func() { xmss.Verify(msg, sig, pk) }))
				e.Intact = e.Intact && string(s0) == string(sig) && p0 == pk && string(m0) == string(msg)
			}
			e.close()
			tr.Emit(e)
		}
	}

	// ---- address functions over the complete descriptor space
	all256 := make([]int, 256)
	for i := range all256 {
		all256[i] = i
	}
	for b0 := 0; b0 < 256; b0++ {
		ea := eEvent{Ev: "xaddr", B0: b0, B1s: all256, Intact: true}
		el := eEvent{Ev: "xladdr", B0: b0, B1s: all256, Intact: true}
		ev := eEvent{Ev: "xvalid", B0: b0, B1s: all256, Intact: true}
		ed := eEvent{Ev: "dvalid", B0: b0, B1s: all256, Intact: true}
		for b1 := 0; b1 < 256; b1++ {
			var pk [67]uint8
			r.Read(pk[:])
			pk[0], pk[1] = uint8(b0), uint8(b1)
			p0 := pk
			ea.Outs = append(ea.Outs, guarded(func() { xmss.GetXMSSAddressFromPK(pk) }))
			el.Outs = append(el.Outs, guarded(func() { xmss.GetLegacyXMSSAddressFromPK(pk) }))
			ea.Intact = ea.Intact && p0 == pk
			var a [20]uint8
			r.Read(a[:])
			a[0], a[1] = uint8(b0), uint8(b1)
			ev.Outs = append(ev.Outs, guarded(func() { xmss.IsValidXMSSAddress(a) }))
			ed.Outs = append(ed.Outs, guarded(func() { dilithium.IsValidDilithiumAddress(a) }))
		}
		ea.close()
		tr.Emit(ea)
		el.close()
		tr.Emit(el)
		ev.close()
		tr.Emit(ev)
		ed.close()
		tr.Emit(ed)
	}
	{
		e := eEvent{Ev: "xlvalid", Intact: true}
		n := 300
		if tier == "thorough" {
			n = 5000
		}
		for i := 0; i < n; i++ {
			var a [39]uint8
			if i%3 > 0 {
				r.Read(a[:])
			} else if i%2 == 0 {
				for j := range a {
					a[j] = 0xff
				}
			}
			e.Outs = append(e.Outs, guarded(func() { xmss.IsValidLegacyXMSSAddress(a) }))
		}
		e.close()
		tr.Emit(e)
	}
	{
		e := eEvent{Ev: "desc", Intact: true}
		for n := 0; n <= 8; n++ {
			b := make([]byte, n)
			r.Read(b)
			e.Lens = append(e.Lens, n)
			e.Outs = append(e.Outs, guarded(func() { xmss.NewQRLDescriptorFromBytes(b) }))
		}
		e.Lens = append(e.Lens, 0)
		e.Outs = append(e.Outs, guarded(func() { xmss.NewQRLDescriptorFromBytes(nil) }))
		e.close()
		tr.Emit(e)
	}

	// ---- Dilithium
	var dseed [48]uint8
	r.Read(dseed[:])
	dk, _ := dilithium.NewDilithiumFromSeed(dseed)
	dpk := dk.GetPK()
	dmsg := []byte("c14 dilithium")
	dsig, _ := dk.Sign(dmsg)
	hintOff := 32 + 7*640
	type dcase struct {
		name string
		mut  func(s *[dilithium.CryptoBytes]uint8, pk *[dilithium.CryptoPublicKeyBytes]uint8)
	}
	dcases := []dcase{
		{"genuine", func(s *[dilithium.CryptoBytes]uint8, pk *[dilithium.CryptoPublicKeyBytes]uint8) {}},
		{"random-sig", func(s *[dilithium.CryptoBytes]uint8, pk *[dilithium.CryptoPublicKeyBytes]uint8) { r.Read(s[:]) }},
		{"zero-sig", func(s *[dilithium.CryptoBytes]uint8, pk *[dilithium.CryptoPublicKeyBytes]uint8) {
			*s = [dilithium.CryptoBytes]uint8{}
		}},
		{"ones-sig", func(s *[dilithium.CryptoBytes]uint8, pk *[dilithium.CryptoPublicKeyBytes]uint8) {
			for i := range s {
				s[i] = 0xff
			}
		}},
		{"random-pk", func(s *[dilithium.CryptoBytes]uint8, pk *[dilithium.CryptoPublicKeyBytes]uint8) { r.Read(pk[:]) }},
		{"ones-pk", func(s *[dilithium.CryptoBytes]uint8, pk *[dilithium.CryptoPublicKeyBytes]uint8) {
			for i := range pk {
				pk[i] = 0xff
			}
		}},
		{"random-hints", func(s *[dilithium.CryptoBytes]uint8, pk *[dilithium.CryptoPublicKeyBytes]uint8) { r.Read(s[hintOff:]) }},
		{"hint-counts-255", func(s *[dilithium.CryptoBytes]uint8, pk *[dilithium.CryptoPublicKeyBytes]uint8) {
			for i := 0; i < 8; i++ {
				s[hintOff+75+i] = 255
			}
		}},
		{"hint-count-76", func(s *[dilithium.CryptoBytes]uint8, pk *[dilithium.CryptoPublicKeyBytes]uint8) { s[hintOff+75+7] = 76 }},
		{"hint-count-75-all-rows", func(s *[dilithium.CryptoBytes]uint8, pk *[dilithium.CryptoPublicKeyBytes]uint8) {
			for i := 0; i < 8; i++ {
				s[hintOff+75+i] = 75
			}
			for i := 0; i < 75; i++ {
				s[hintOff+i] = uint8(i * 3)
			}
		}},
		{"hint-indices-255", func(s *[dilithium.CryptoBytes]uint8, pk *[dilithium.CryptoPublicKeyBytes]uint8) {
			for i := 0; i < 75; i++ {
				s[hintOff+i] = 255
			}
			s[hintOff+75+7] = 75
		}},
		{"hint-counts-decreasing", func(s *[dilithium.CryptoBytes]uint8, pk *[dilithium.CryptoPublicKeyBytes]uint8) {
			for i := 0; i < 8; i++ {
				s[hintOff+75+i] = uint8(70 - 9*i)
			}
		}},
		// strictly increasing bytes through the whole hint section (index bytes AND count bytes), so that an
		// ordering check never stops a decoder that trusts an oversized count: first count = 200, 84, 83, 76
		{"hint-increasing-run-count-200", func(s *[dilithium.CryptoBytes]uint8, pk *[dilithium.CryptoPublicKeyBytes]uint8) {
			for i := 0; i < 75; i++ {
				s[hintOff+i] = uint8(i + 1)
			}
			for i := 0; i < 8; i++ {
				s[hintOff+75+i] = uint8(200 + i)
			}
		}},
		{"hint-increasing-run-count-84", func(s *[dilithium.CryptoBytes]uint8, pk *[dilithium.CryptoPublicKeyBytes]uint8) {
			for i := 0; i < 75; i++ {
				s[hintOff+i] = uint8(i + 1)
			}
			for i := 0; i < 8; i++ {
				s[hintOff+75+i] = uint8(84 + i)
			}
		}},
		{"hint-increasing-run-count-76", func(s *[dilithium.CryptoBytes]uint8, pk *[dilithium.CryptoPublicKeyBytes]uint8) {
			for i := 0; i < 75; i++ {
				s[hintOff+i] = uint8(i)
			}
			for i := 0; i < 8; i++ {
				s[hintOff+75+i] = uint8(76 + i)
			}
		}},
		{"hint-late-row-oversized", func(s *[dilithium.CryptoBytes]uint8, pk *[dilithium.CryptoPublicKeyBytes]uint8) {
			// rows 0..5 empty, row 6 claims 255 entries over an increasing run
			for i := 0; i < 75; i++ {
				s[hintOff+i] = uint8(i + 2)
			}
			for i := 0; i < 6; i++ {
				s[hintOff+75+i] = 0
			}
			s[hintOff+75+6] = 255
			s[hintOff+75+7] = 255
			s[hintOff+75] = 0
			// make positions 75..82 increasing too where the counts allow: bytes 75..80 are 0 (counts), so the run ends there
		}},
		{"hint-late-row-oversized-run", func(s *[dilithium.CryptoBytes]uint8, pk *[dilithium.CryptoPublicKeyBytes]uint8) {
			// row 0 takes 0 entries... every count byte equal to 250: count[0] = 250 over a fully increasing section
			for i := 0; i < 83; i++ {
				s[hintOff+i] = uint8(100 + i)
			}
			s[hintOff+75] = 250
			for i := 1; i < 8; i++ {
				s[hintOff+75+i] = uint8(250 + i - 1)
				if 250+i-1 > 255 {
					s[hintOff+75+i] = 255
				}
			}
			for i := 0; i < 75; i++ {
				s[hintOff+i] = uint8(i * 3)
			}
		}},
		{"z-all-ones", func(s *[dilithium.CryptoBytes]uint8, pk *[dilithium.CryptoPublicKeyBytes]uint8) {
			for i := 32; i < hintOff; i++ {
				s[i] = 0xff
			}
		}},
	}
	nrep := 1
	if tier == "thorough" {
		nrep = 30
	}
	for rep := 0; rep < nrep; rep++ {
		for _, dc := range dcases {
			s := dsig
			pk := dpk
			dc.mut(&s, &pk)
			msg := dup(dmsg)
			s0, p0 := s, pk
			e := eEvent{Ev: "dverify", Content: dc.name, Intact: true}
			e.Out = guarded(func() { dilithium.Verify(msg, s, &pk) })
			e.Intact = s0 == s && p0 == pk && string(msg) == string(dmsg)
			e.close()
			tr.Emit(e)
			// the same material through Open, for every length class
			for _, n := range cl.DOpenLens {
				sm := make([]byte, n)
				full := append(dup(s[:]), dmsg...)
				copy(sm, full)
				if n > len(full) {
					r.Read(sm[len(full):])
				}
				c0 := dup(sm)
				var res []byte
				o := eEvent{Ev: "dopen", Content: dc.name, SigLen: n, Intact: true}
				o.Out = guarded(func() { res = dilithium.Open(sm, &pk) })
				o.Nil = []bool{res == nil}
				o.Intact = string(c0) == string(sm) && p0 == pk
				o.close()
				tr.Emit(o)
			}
			var pkr [dilithium.CryptoPublicKeyBytes]uint8
			r.Read(pkr[:])
			a := eEvent{Ev: "daddr", Content: "random-pk", Intact: true}
			a.Out = guarded(func() { dilithium.GetDilithiumAddressFromPK(pkr) })
			a.close()
			tr.Emit(a)
		}
	}

	// ---- mnemonic decoders on arbitrary strings
	words := func(n int) []string {
		w := make([]string, n)
		for i := range w {
			w[i] = qrl.WordList[r.Intn(4096)]
		}
		return w
	}
	var phrases []string
	for _, n := range []int{0, 1, 2, 3, 30, 31, 32, 33, 34, 35, 36, 64, 100, 2000, 2001} {
		phrases = append(phrases, strings.Join(words(n), " "))
	}
	for _, n := range []int{32, 34} {
		w := words(n)
		g := strings.Join(w, " ")
		phrases = append(phrases, " "+g, g+" ", g+"\n", strings.ReplaceAll(g, " ", "  "), strings.ReplaceAll(g, " ", "\t"),
			strings.ToUpper(g), strings.Repeat(" ", n-1), strings.Repeat(" ", n), g+"\x00", "\xff\xfe"+g, g[:len(g)-1])
		// some of the separators replaced by other white space (what a decoder that counts one way and
		// splits another way trips over)
		for _, k := range []int{1, 2, 3, 4} {
			for _, ws := range []string{"\n", "\t", "\r\n", "  "} {
				parts := append([]string{}, w...)
				sep := make([]string, n-1)
				for i := range sep {
					sep[i] = " "
				}
				for q := 0; q < k; q++ {
					sep[r.Intn(n-1)] = ws
				}
				var sb strings.Builder
				for i, x := range parts {
					if i > 0 {
						sb.WriteString(sep[i-1])
					}
					sb.WriteString(x)
				}
				phrases = append(phrases, sb.String())
			}
		}
		// unknown tokens that sort before the first, after the last and between list words
		for _, tok := range []string{"a", "aa", "zz", "zzzzzz", "zurick", "zurichz", "z\xff", "{", "~", "\xff", "\x00", "A", "Z", "aback0", "zurich ", "0", "-"} {
			for _, p := range []int{0, n - 1} {
				c := append([]string{}, w...)
				c[p] = tok
				phrases = append(phrases, strings.Join(c, " "))
			}
		}
		for _, p := range []int{0, n / 2, n - 1} {
			c := append([]string{}, w...)
			c[p] = "notaword"
			phrases = append(phrases, strings.Join(c, " "))
			c[p] = ""
			phrases = append(phrases, strings.Join(c, " "))
			c[p] = "\xc3\x28"
			phrases = append(phrases, strings.Join(c, " "))
		}
	}
	nr := 30
	if tier == "thorough" {
		nr = 600
	}
	for i := 0; i < nr; i++ {
		b := make([]byte, r.Intn(400))
		r.Read(b)
		if i%2 == 0 {
			for j := range b {
				if b[j]%5 == 0 {
					b[j] = ' '
				}
			}
		}
		phrases = append(phrases, string(b))
	}
	for _, p := range phrases {
		for _, size := range []int{48, 51} {
			e := eEvent{Ev: "mn", Size: size, Phrase: ints([]byte(p)), Intact: true}
			q := p
			if size == 48 {
				e.Out = guarded(func() { misc.MnemonicToSeedBin(q) })
			} else {
				e.Out = guarded(func() { misc.MnemonicToExtendedSeedBin(q) })
			}
			e.close()
			tr.Emit(e)
		}
	}
}

// sweepLengths: message lengths around the block boundaries of the hash functions in use
func sweepLengths(r *rand.Rand, tier string) []int {
	seen := map[int]bool{}
	var out []int
	add := func(l int) {
		if l >= 0 && !seen[l] {
			seen[l] = true
			out = append(out, l)
		}
	}
	if tier == "thorough" {
		for l := 0; l <= 1400; l++ {
			add(l)
		}
	}
	for _, blk := range []int{64, 136, 168} {
		for k := 1; k*blk <= 1500; k++ {
			for _, off := range []int{0, -9, -128, -128 - 9, -96, -32} { // padding and the prefixes the schemes prepend
				for d := -2; d <= 2; d++ {
					add(k*blk + off + d)
				}
			}
		}
	}
	for p := 1; p <= 1<<16; p <<= 1 {
		for d := -2; d <= 2; d++ {
			add(p + d)
		}
	}
	for i := 0; i < 60; i++ {
		add(r.Intn(1500))
	}
	add(100000)
	add(1 << 20)
	return out
}

func ints(b []byte) []int {
	o := make([]int, len(b))
	for i, v := range b {
		o[i] = int(v)
	}
	return o
}

func wordlistBytes() [][]int {
	wl := make([][]int, len(qrl.WordList))
	for i, w := range qrl.WordList {
		wl[i] = ints([]byte(w))
	}
	return wl
}
