package main

import (
	"encoding/hex"
	"math/rand"
	"strconv"
	"strings"

	"github.com/theQRL/go-qrllib/common"
	"github.com/theQRL/go-qrllib/dilithium"
	"github.com/theQRL/go-qrllib/qrllib-js/dilithiumjs"
	"github.com/theQRL/go-qrllib/qrllib-js/xmssjs"
	"github.com/theQRL/go-qrllib/xmss"

	"verifharness/trace"
)

// C16: the string wrappers of qrllib-js against the core API.
// Events for spec/TraceWrappers.tla.

type res struct {
	Kind string `json:"kind"` // bool | str | panic
	B    bool   `json:"b"`
	S    []int  `json:"s"`
	Text string `json:"text"`
}

type wEvent struct {
	Ev    string  `json:"ev"`
	Fn    string  `json:"fn"`
	Class string  `json:"class"`
	Args  [][]int `json:"args"`  // the hex string arguments as bytes of the Go string
	Sizes []int   `json:"sizes"` // byte size of the core function's corresponding array (0 = slice, any length)
	Fed   [][]int `json:"fed"`   // what the harness fed to the core function for each argument
	Core  res     `json:"core"`
	Wrap  res     `json:"wrap"`
}

func boolRes(f func() bool) res {
	var b bool
	r := call(func() { b = f() })
	if r != "ok" {
		return res{Kind: "panic", Text: r, S: []int{}}
	}
	return res{Kind: "bool", B: b, S: []int{}}
}

func strRes(f func() string) res {
	var s string
	r := call(func() { s = f() })
	if r != "ok" {
		return res{Kind: "panic", Text: r, S: []int{}}
	}
	return res{Kind: "str", S: ints([]byte(s))}
}

// goDecode mirrors what the wrappers are specified to do with a hex argument:
// optional 0x removed, hex decoded; used only to compute what the core is fed.
func goDecode(s string) ([]byte, bool) {
	if strings.HasPrefix(s, "0x") {
		s = s[2:]
	}
	b, err := hex.DecodeString(s)
	if err != nil {
		return nil, false
	}
	return b, true
}

func sized(b []byte, n int) []byte {
	o := make([]byte, n)
	copy(o, b)
	return o
}

type variant struct {
	class string
	s     string
}

func variants(b []byte, r *rand.Rand) []variant {
	h := hex.EncodeToString(b)
	up := strings.ToUpper(h)
	vs := []variant{
		{"lower", h}, {"0x-lower", "0x" + h}, {"upper", up}, {"0x-upper", "0x" + up},
	}
	if len(h) >= 4 {
		mid := len(h) / 2
		vs = append(vs,
			variant{"odd-length", h[:len(h)-1]},
			variant{"0x-odd-length", "0x" + h[:len(h)-1]},
			variant{"nonhex-start", "g" + h[1:]},
			variant{"nonhex-middle", h[:mid] + "z" + h[mid+1:]},
			variant{"nonhex-end", h[:len(h)-1] + "x"},
			variant{"space-inside", h[:mid] + " " + h[mid+1:]},
			variant{"0X-prefix", "0X" + h},
			variant{"double-prefix", "0x0x" + h},
			variant{"trailing-newline", h + "\n"},
			variant{"upper-case-hex", strings.ToUpper(h)},
			variant{"0x-upper-case-hex", "0x" + strings.ToUpper(h)},
			variant{"mixed-case-hex", strings.ToUpper(h[:mid]) + h[mid:]},
			variant{"plus-sign", "+" + h[1:]},
			variant{"minus-sign", "-" + h[1:]},
			variant{"plus-sign-extra", "+" + h},
			variant{"0x-minus-sign", "0x-" + h[1:]},
			variant{"underscore", h[:mid] + "_" + h[mid+1:]},
			variant{"short", h[:len(h)-2]},
			variant{"long", h + "00"},
			variant{"0x-only", "0x"},
			variant{"empty", ""},
		)
		// every string of length 1 and 2 over the characters the prefix logic looks at
		alpha := []string{"0", "x", "X", "a", "f", "g", " "}
		for _, c1 := range alpha {
			vs = append(vs, variant{"tiny", c1})
			for _, c2 := range alpha {
				vs = append(vs, variant{"tiny", c1 + c2})
			}
		}
		vs = append(vs, variant{"tiny", "0x0"}, variant{"tiny", "00x"}, variant{"tiny", "0x "}, variant{"tiny", "x0" + h})
	}
	return vs
}

func c16(r *rand.Rand, tier string, tr *trace.Buf) {
	// ---------------- Dilithium
	var dseed [48]uint8
	r.Read(dseed[:])
	dk, _ := dilithium.NewDilithiumFromSeed(dseed)
	dpk := dk.GetPK()
	dmsg := []byte("c16 message")
	dsig, _ := dk.Sign(dmsg)
	flipped := dsig
	flipped[100] ^= 4
	type trip struct {
		name string
		msg  []byte
		sig  []byte
		pk   []byte
	}
	dmsg0x := []byte("0xfeedface")
	dsig0x, _ := dk.Sign(dmsg0x)
	dsigEmpty, _ := dk.Sign([]byte{})
	dflipEmpty := dsigEmpty
	dflipEmpty[200] ^= 8
	dmsgHi := []byte("\xe9t\xc3\xa9 \xff\xfe\x80")
	dsigHi, _ := dk.Sign(dmsgHi)
	var dzero [dilithium.CryptoBytes]uint8
	dtrips := []trip{{"valid-empty-message", []byte{}, dsigEmpty[:], dpk[:]}, {"flipped-signature-empty-message", []byte{}, dflipEmpty[:], dpk[:]},
		{"wrong-message-empty", []byte{}, dsig[:], dpk[:]}, {"zero-signature-empty-message", []byte{}, dzero[:], dpk[:]},
		{"valid-non-ascii-message", dmsgHi, dsigHi[:], dpk[:]},
		{"valid", dmsg, dsig[:], dpk[:]}, {"wrong-message", []byte("other"), dsig[:], dpk[:]}, {"flipped-signature", dmsg, flipped[:], dpk[:]},
		{"valid-0x-message", dmsg0x, dsig0x[:], dpk[:]}, {"wrong-message-bare-variant", []byte("feedface"), dsig0x[:], dpk[:]}}
	emitD := func(class string, msg []byte, sigS, pkS string) {
		e := wEvent{Ev: "wrap", Fn: "dverify", Class: class, Args: [][]int{ints([]byte(sigS)), ints([]byte(pkS))},
			Sizes: []int{dilithium.CryptoBytes, dilithium.CryptoPublicKeyBytes}}
		sb, ok1 := goDecode(sigS)
		pb, ok2 := goDecode(pkS)
		if ok1 && ok2 {
			var s [dilithium.CryptoBytes]uint8
			var p [dilithium.CryptoPublicKeyBytes]uint8
			copy(s[:], sb)
			copy(p[:], pb)
			e.Fed = [][]int{ints(s[:]), ints(p[:])}
			e.Core = boolRes(func() bool { return dilithium.Verify(msg, s, &p) })
		} else {
			e.Fed = [][]int{}
			e.Core = res{Kind: "none", S: []int{}}
		}
		e.Wrap = boolRes(func() bool { return dilithiumjs.DilithiumVerify(msg, sigS, pkS) })
		tr.Emit(e)
	}
	for _, t := range dtrips {
		sv := variants(t.sig, r)
		pv := variants(t.pk, r)
		// all prefix/case combinations of both arguments, every malformed variant against a good partner
		for i, a := range sv {
			for j, b := range pv {
				if (i < 4 && j < 4) || (t.name == "valid" && (i == 0 || j == 1)) {
					emitD(t.name+"/"+a.class+"/"+b.class, t.msg, a.s, b.s)
				}
			}
		}
	}
	npk := 3
	if tier == "thorough" {
		npk = 30
	}
	emit1 := func(fn, class, arg string, size int, core func(b []byte) res, wrap func() res) {
		e := wEvent{Ev: "wrap", Fn: fn, Class: class, Args: [][]int{ints([]byte(arg))}, Sizes: []int{size}}
		if b, ok := goDecode(arg); ok {
			f := sized(b, size)
			e.Fed = [][]int{ints(f)}
			e.Core = core(f)
		} else {
			e.Fed = [][]int{}
			e.Core = res{Kind: "none", S: []int{}}
		}
		e.Wrap = wrap()
		tr.Emit(e)
	}
	for q := 0; q < npk; q++ {
		pk := make([]byte, dilithium.CryptoPublicKeyBytes)
		if q == 0 {
			copy(pk, dpk[:])
		} else {
			r.Read(pk)
		}
		for _, v := range variants(pk, r) {
			v := v
			emit1("daddr", v.class, v.s, dilithium.CryptoPublicKeyBytes,
				func(b []byte) res {
					var p [dilithium.CryptoPublicKeyBytes]uint8
					copy(p[:], b)
					return strRes(func() string { a := dilithium.GetDilithiumAddressFromPK(p); return hex.EncodeToString(a[:]) })
				},
				func() res { return strRes(func() string { return dilithiumjs.GetDilithiumAddressFromPK(v.s) }) })
		}
	}
	// ---------------- XMSS
	var xseed [48]uint8
	r.Read(xseed[:])
	xk := xmss.NewXMSSFromSeed(xseed, 4, xmss.HashFunction(r.Intn(3)), common.SHA256_2X)
	xpk := xk.GetPK()
	xmsg := "c16 xmss message"
	xsig, _ := xk.Sign([]byte(xmsg))
	xflip := dup(xsig)
	xflip[50] ^= 1
	// messages are text for XMSSVerify: one that itself starts with "0x" must not be touched by prefix handling
	xmsg0x := "0xdeadbeef"
	xsig0x, _ := xk.Sign([]byte(xmsg0x))
	xsigBare, _ := xk.Sign([]byte("deadbeef"))
	// messages that are not ASCII text (bytes >= 0x80, invalid UTF-8) and the empty message
	xmsgHi := "\xe9t\xc3\xa9 \xff\xfe\x80"
	xsigHi, _ := xk.Sign([]byte(xmsgHi))
	xsigE9, _ := xk.Sign([]byte("\xe9"))
	xsigEmpty, _ := xk.Sign([]byte{})
	xflipEmpty := dup(xsigEmpty)
	xflipEmpty[60] ^= 2
	// the last leaf of the tree (index 2^h - 1): made last, it exhausts the key
	xk.SetIndex(15)
	xsigLast, _ := xk.Sign([]byte("last leaf"))
	xtrips := []trip{{"valid-last-leaf", []byte("last leaf"), xsigLast, xpk[:]}, {"valid-non-ascii-message", []byte(xmsgHi), xsigHi, xpk[:]}, {"wrong-message-utf8-of-the-byte", []byte("\xc3\xa9"), xsigE9, xpk[:]},
		{"valid-single-high-byte", []byte("\xe9"), xsigE9, xpk[:]},
		{"valid-empty-message", []byte{}, xsigEmpty, xpk[:]}, {"flipped-signature-empty-message", []byte{}, xflipEmpty, xpk[:]},
		{"wrong-message-empty", []byte{}, xsig, xpk[:]},
		{"valid", []byte(xmsg), xsig, xpk[:]}, {"wrong-message", []byte("other"), xsig, xpk[:]}, {"flipped-signature", []byte(xmsg), xflip, xpk[:]},
		{"valid-0x-message", []byte(xmsg0x), xsig0x, xpk[:]}, {"wrong-message-0x-variant", []byte(xmsg0x), xsigBare, xpk[:]}, {"wrong-message-bare-variant", []byte("deadbeef"), xsig0x, xpk[:]}}
	emitX := func(class string, msg string, sigS, pkS string) {
		e := wEvent{Ev: "wrap", Fn: "xverify", Class: class, Args: [][]int{ints([]byte(sigS)), ints([]byte(pkS))},
			Sizes: []int{0, xmss.ExtendedPKSize}}
		sb, ok1 := goDecode(sigS)
		pb, ok2 := goDecode(pkS)
		if ok1 && ok2 {
			var p [xmss.ExtendedPKSize]uint8
			copy(p[:], pb)
			e.Fed = [][]int{ints(sb), ints(p[:])}
			e.Core = boolRes(func() bool { return xmss.Verify([]byte(msg), sb, p) })
		} else {
			e.Fed = [][]int{}
			e.Core = res{Kind: "none", S: []int{}}
		}
		e.Wrap = boolRes(func() bool { return xmssjs.XMSSVerify(msg, sigS, pkS) })
		tr.Emit(e)
	}
	for _, t := range xtrips {
		sv := variants(t.sig, r)
		pv := variants(t.pk, r)
		for i, a := range sv {
			for j, b := range pv {
				if (i < 4 && j < 4) || (strings.HasPrefix(t.name, "valid") && (i == 0 || j == 1)) {
					emitX(t.name+"/"+a.class+"/"+b.class, string(t.msg), a.s, b.s)
				}
			}
		}
	}
	for q := 0; q < npk*4; q++ {
		pk := make([]byte, xmss.ExtendedPKSize)
		r.Read(pk)
		if q == 0 {
			copy(pk, xpk[:])
		}
		if q%2 == 0 {
			pk[1] &= 0x0f // supported address format
		}
		for _, v := range variants(pk, r) {
			v := v
			emit1("xaddr", v.class, v.s, xmss.ExtendedPKSize,
				func(b []byte) res {
					var p [xmss.ExtendedPKSize]uint8
					copy(p[:], b)
					return strRes(func() string { a := xmss.GetXMSSAddressFromPK(p); return hex.EncodeToString(a[:]) })
				},
				func() res { return strRes(func() string { return xmssjs.GetXMSSAddressFromPK(v.s) }) })
		}
	}
	// every byte value at the first, a middle and the last character of an otherwise well-formed string:
	// exactly the 22 hexadecimal digits may decode (short arguments only: address validity and the XMSS pk)
	{
		a := make([]byte, common.AddressSize)
		r.Read(a)
		a[0], a[1] = 0x10, 0x05
		h := hex.EncodeToString(a)
		for _, pos := range []int{0, len(h) / 2, len(h) - 1} {
			for c := 0; c < 256; c++ {
				s := h[:pos] + string([]byte{byte(c)}) + h[pos+1:]
				emit1("dvalid", "byte-value", s, common.AddressSize,
					func(b []byte) res {
						var p [common.AddressSize]uint8
						copy(p[:], b)
						return boolRes(func() bool { return dilithium.IsValidDilithiumAddress(p) })
					},
					func() res { return boolRes(func() bool { return dilithiumjs.IsValidDilithiumAddress(s) }) })
				emit1("xvalid", "byte-value", s, common.AddressSize,
					func(b []byte) res {
						var p [common.AddressSize]uint8
						copy(p[:], b)
						return boolRes(func() bool { return xmss.IsValidXMSSAddress(p) })
					},
					func() res { return boolRes(func() bool { return xmssjs.IsValidXMSSAddress(s) }) })
			}
		}
		ph := hex.EncodeToString(xpk[:])
		for _, pos := range []int{0, 7, len(ph) - 1} {
			for c := 0; c < 256; c++ {
				s := ph[:pos] + string([]byte{byte(c)}) + ph[pos+1:]
				emit1("xaddr", "byte-value", s, xmss.ExtendedPKSize,
					func(b []byte) res {
						var p [xmss.ExtendedPKSize]uint8
						copy(p[:], b)
						return strRes(func() string { a := xmss.GetXMSSAddressFromPK(p); return hex.EncodeToString(a[:]) })
					},
					func() res { return strRes(func() string { return xmssjs.GetXMSSAddressFromPK(s) }) })
			}
		}
	}
	// genuine XMSS signatures of TALL trees (heights 8..20): leaf 0 is computed for real, all other leaves are
	// synthetic (leaf hook), so that the signature at index 0 verifies under the core and must under the wrapper
	{
		hs := []int{8, 12, 16, 20}
		if tier == "thorough" {
			hs = []int{8, 10, 12, 14, 16, 18, 20}
		}
		xmss.VerifLeafHook = func(hf xmss.HashFunction, leaf []uint8, idx uint32) bool {
			if idx == 0 {
				return false
			}
			b := []byte{byte(idx), byte(idx >> 8), byte(idx >> 16), byte(idx >> 24), 0x5a}
			for i := range leaf {
				leaf[i] = b[i%5] ^ byte(i*7)
			}
			return true
		}
		for _, h := range hs {
			var sd [48]uint8
			r.Read(sd[:])
			k := xmss.NewXMSSFromSeed(sd, uint8(h), xmss.HashFunction(h/2%3), common.SHA256_2X)
			pk := k.GetPK()
			m := "tall tree message"
			sig, err := k.Sign([]byte(m))
			if err != nil {
				continue
			}
			for _, pre := range []string{"", "0x"} {
				emitX("tall-h"+strconv.Itoa(h)+"-valid", m, pre+hex.EncodeToString(sig), pre+hex.EncodeToString(pk[:]))
				emitX("tall-h"+strconv.Itoa(h)+"-wrong-message", m+"!", pre+hex.EncodeToString(sig), pre+hex.EncodeToString(pk[:]))
			}
		}
		xmss.VerifLeafHook = nil
	}
	// ---------------- address validity, both schemes
	for q := 0; q < npk*8; q++ {
		a := make([]byte, common.AddressSize)
		r.Read(a)
		switch q % 4 {
		case 0:
			a[0] = 0x10
		case 1:
			a[0], a[1] = uint8(r.Intn(3)), uint8(r.Intn(16))
		case 2:
			a[0] = uint8(r.Intn(16))
		}
		for _, v := range variants(a, r) {
			v := v
			emit1("dvalid", v.class, v.s, common.AddressSize,
				func(b []byte) res {
					var p [common.AddressSize]uint8
					copy(p[:], b)
					return boolRes(func() bool { return dilithium.IsValidDilithiumAddress(p) })
				},
				func() res { return boolRes(func() bool { return dilithiumjs.IsValidDilithiumAddress(v.s) }) })
			emit1("xvalid", v.class, v.s, common.AddressSize,
				func(b []byte) res {
					var p [common.AddressSize]uint8
					copy(p[:], b)
					return boolRes(func() bool { return xmss.IsValidXMSSAddress(p) })
				},
				func() res { return boolRes(func() bool { return xmssjs.IsValidXMSSAddress(v.s) }) })
		}
	}
}
