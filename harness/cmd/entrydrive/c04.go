package main

import (
	"math/rand"
	"runtime"
	"sync"
	"verifharness/pathkey"

	"github.com/theQRL/go-qrllib/common"
	"github.com/theQRL/go-qrllib/xmss"

	"verifharness/trace"
)

// C04: xmss.Verify accepts exactly what the scheme defines as valid.
// Events for spec/TraceVerify.tla.

type vEvent struct {
	Ev      string   `json:"ev"`
	Sid     int      `json:"sid"`
	Class   string   `json:"class"`
	W       int      `json:"w"`
	H       int      `json:"h"`      // height of the genuine key the material comes from
	BaseHf  int      `json:"basehf"` // its hash function
	Idx     int      `json:"idx"`
	SigLen  int      `json:"siglen"`
	B0      int      `json:"b0"` // descriptor bytes of the public key as presented
	B1      int      `json:"b1"`
	B2      int      `json:"b2"`
	Genuine bool     `json:"genuine"` // message, signature and key material all come unmodified from one Sign call (descriptor aside)
	Target  string   `json:"target,omitempty"`
	Off     int      `json:"off"`
	Out     string   `json:"out,omitempty"`
	Outs    []string `json:"outs,omitempty"`
	Same16  bool     `json:"same16"`
	Intact  bool     `json:"intact"`
}

func verifyOut(w uint32, msg, sig []byte, pk [67]uint8) (out string, intact bool) {
	// signature and message are handed over as ONE buffer sig || guard || msg || guard with spare capacity behind
	// each slice (the layout of a sealed message): what lies behind a slice's length belongs to the caller too
	const guard = 48
	buf := make([]byte, len(sig)+guard+len(msg)+guard)
	for i := range buf {
		buf[i] = 0xa5
	}
	copy(buf, sig)
	copy(buf[len(sig)+guard:], msg)
	sig = buf[:len(sig)]
	msg = buf[len(sig)+guard : len(sig)+guard+len(msg)]
	b0 := dup(buf)
	m0, s0, p0 := dup(msg), dup(sig), pk
	var ok bool
	res := call(func() {
		if w == 0 {
			ok = xmss.Verify(msg, sig, pk)
		} else {
			ok = xmss.VerifyWithCustomWOTSParamW(msg, sig, pk, w)
		}
	})
	intact = string(m0) == string(msg) && string(s0) == string(sig) && p0 == pk && string(b0) == string(buf)
	if res != "ok" {
		return res, intact
	}
	if ok {
		return "true", intact
	}
	return "false", intact
}

type scenario struct {
	light bool // tall-tree scenario in the quick tier: a subset of the bit flips
	sid   int
	h     int
	hf    int
	idx   int
	msg   []byte
	sig   []byte
	pk    [67]uint8
}

func c04(r *rand.Rand, tier string, tr *trace.Buf) {
	heights := []int{4}
	per := 1
	if tier == "thorough" {
		heights = []int{4, 6, 8}
		per = 3
	}
	var scs []scenario
	sid := 0
	for _, h := range heights {
		for hf := 0; hf < 3; hf++ {
			var seed [48]uint8
			r.Read(seed[:])
			x := xmss.NewXMSSFromSeed(seed, uint8(h), xmss.HashFunction(hf), common.SHA256_2X)
			n := 1 << uint(h)
			cand := []int{0, 1, n - 1, 1 + r.Intn(n-2), r.Intn(n)}
			if tier == "quick" {
				cand = []int{[]int{0, n - 1, 1 + r.Intn(n-2)}[(hf+int(r.Int63()))%3]}
			}
			used := map[int]bool{}
			cnt := 0
			for _, i := range sortedInts(cand) {
				if used[i] || cnt >= per+2 {
					continue
				}
				used[i] = true
				cnt++
				if uint32(i) > x.GetIndex() {
					x.SetIndex(uint32(i)) // post-jump index
				} else if uint32(i) < x.GetIndex() {
					continue
				}
				msg := make([]byte, 1+r.Intn(80))
				r.Read(msg)
				sig, err := x.Sign(msg)
				if err != nil {
					continue
				}
				sid++
				scs = append(scs, scenario{false, sid, h, hf, i, msg, sig, x.GetPK()})
			}
		}
	}
	// tall trees: chosen leaves are computed for real, all others are synthetic (leaf hook), so genuine
	// signatures exist at those indices for heights whose descriptor nibble is >= 6
	tallHs := []int{16}
	if tier == "thorough" {
		tallHs = []int{12, 16, 20}
	}
	for _, h := range tallHs {
		n := 1 << uint(h)
		realIdx := map[uint32]bool{0: true, 256: true, uint32(n - 1): true}
		if h > 16 {
			realIdx[65536] = true
		}
		xmss.VerifLeafHook = func(hf xmss.HashFunction, leaf []uint8, idx uint32) bool {
			if realIdx[idx] {
				return false
			}
			b := []byte{byte(idx), byte(idx >> 8), byte(idx >> 16), byte(idx >> 24), 0xa5}
			for i := range leaf {
				leaf[i] = b[i%5] ^ byte(i*11)
			}
			return true
		}
		var seed [48]uint8
		r.Read(seed[:])
		hf := h / 4 % 3
		x := xmss.NewXMSSFromSeed(seed, uint8(h), xmss.HashFunction(hf), common.SHA256_2X)
		var order []int
		for i := range realIdx {
			order = append(order, int(i))
		}
		for _, i := range sortedInts(order) {
			if tier == "quick" && i != 256 && i != n-1 {
				continue
			}
			x.SetIndex(uint32(i))
			msg := make([]byte, 1+r.Intn(40))
			r.Read(msg)
			sig, err := x.Sign(msg)
			if err != nil {
				continue
			}
			sid++
			scs = append(scs, scenario{tier == "quick", sid, h, hf, i, msg, sig, x.GetPK()})
		}
		xmss.VerifLeafHook = nil
	}
	bufs := make([]*trace.Buf, len(scs))
	var wg sync.WaitGroup
	sem := make(chan struct{}, runtime.NumCPU())
	for si := range scs {
		si := si
		rr := rand.New(rand.NewSource(r.Int63()))
		wg.Add(1)
		sem <- struct{}{}
		go func() {
			defer wg.Done()
			defer func() { <-sem }()
			b := &trace.Buf{}
			bufs[si] = b
			scenarioEvents(scs[si], scs, rr, tier, b)
		}()
	}
	wg.Wait()
	for _, b := range bufs {
		tr.Append(b)
	}
	junkCases(r, tier, tr)
	msgLengthSweep(r, tier, tr)
	pathKeyCases(r, tier, tr)
	msgLengthPathKeys(r, tier, tr)
}

// pathKeyCases: valid triples for one-path keys of EVERY height 1..30 under every descriptor height that
// could be confused with it; plus public keys whose root is what an untouched buffer holds.
func pathKeyCases(r *rand.Rand, tier string, tr *trace.Buf) {
	emit := func(class string, t pathTriple, genuine bool, msg, sig []byte, pk [67]uint8) {
		e := vEvent{Ev: "case", Class: class, W: 16, H: t.h, BaseHf: t.hf, Idx: t.idx, SigLen: len(sig), B0: int(pk[0]), B1: int(pk[1]), B2: int(pk[2]), Genuine: genuine}
		e.Out, e.Intact = verifyOut(0, msg, sig, pk)
		o16, _ := verifyOut(16, msg, sig, pk)
		e.Same16 = o16 == e.Out
		tr.Emit(e)
	}
	for h := 1; h <= 30; h++ {
		for rep := 0; rep < 2; rep++ {
			hf := (h + rep) % 3
			var idx uint32
			switch rep {
			case 0:
				idx = uint32(r.Int63n(int64(1) << uint(h)))
			case 1:
				idx = uint32((int64(1) << uint(h)) - 1)
			}
			for _, declared := range []int{h, h - 1, h + 1, h - 2, h + 2} {
				if declared < 0 || declared > 30 || declared%2 != 0 {
					continue
				}
				var t pathTriple
				if res := call(func() { t = pathKey(r, h, hf, idx, declared, 1+r.Intn(50)) }); res != "ok" {
					// the library's own building blocks (validateAuthPath, hMsg, ..) failed on well-formed input while the
					// triple was assembled: recorded as the outcome of that triple (a genuine triple that is not accepted)
					var pk0 [67]uint8
					pk0[0], pk0[1] = uint8(hf), uint8(declared/2)&0x0f
					e := vEvent{Ev: "case", Class: "path-key-material-failed", W: 16, H: h, BaseHf: hf, Idx: int(idx), SigLen: 2180 + 32*h, B0: int(pk0[0]), B1: int(pk0[1]), Genuine: true, Same16: true, Intact: true, Out: res}
					tr.Emit(e)
					continue
				}
				emit("path-key", t, true, t.msg, t.sig, t.pk) // the specification decides from (length, descriptor) whether it may verify
				if declared == h {
					bad := dup(t.sig)
					bad[len(bad)-1] ^= 1 // top authentication node
					emit("path-key-top-auth-flipped", t, false, t.msg, bad, t.pk)
					emit("path-key-wrong-message", t, false, append(dup(t.msg), 1), t.sig, t.pk)
					// index field beyond the tree, everything else genuine
					oob := dup(t.sig)
					v := uint32(t.idx) + uint32(1)<<uint(h)
					oob[0], oob[1], oob[2], oob[3] = byte(v>>24), byte(v>>16), byte(v>>8), byte(v)
					if h < 31 {
						emit("path-key-index-plus-2^h", t, false, t.msg, oob, t.pk)
					}
				}
			}
		}
	}
	// a signer who holds the secret signs under a root that differs from the true one in a few bits: the path
	// leads to the true root, the public key carries the other one. Patterns that cancel when differences of
	// words (8, 4, 2 bytes) are folded with xor, and single bits as control.
	for pi, pos := range [][]int{{0}, {31}, {0, 8}, {3, 11}, {7, 31}, {0, 8, 16, 24}, {0, 4}, {0, 2}, {0, 1}, {5, 13, 21, 29}, {0, 16}} {
		for hf := 0; hf < 3; hf++ {
			delta := make([]byte, 32)
			bit := byte(1) << uint((pi+hf)%8)
			for _, p := range pos {
				delta[p] ^= bit
			}
			t0 := pathkey.MakeRootDelta(r, 4, hf, uint32(r.Intn(16)), 4, 1+r.Intn(40), delta)
			t := pathTriple{t0.H, t0.Hf, t0.Idx, t0.Msg, t0.Sig, t0.Pk}
			emit("path-key-root-delta", t, false, t.msg, t.sig, t.pk)
		}
	}
	// public keys whose root is what an untouched buffer holds (all zero / all 0xff), supported hash function,
	// descriptor consistent with the length; signature content random, zero, and random with an index beyond the tree
	for _, h := range []int{4, 6, 10, 20, 30} {
		for hf := 0; hf < 3; hf++ {
			for _, fill := range []byte{0x00, 0xff} {
				for variant := 0; variant < 4; variant++ {
					var pk [67]uint8
					pk[0], pk[1] = uint8(hf), uint8(h/2)
					for i := 3; i < 35; i++ {
						pk[i] = fill
					}
					r.Read(pk[35:])
					sig := make([]byte, 2180+32*h)
					switch variant {
					case 0:
						r.Read(sig)
					case 1: // all zero, index 0
					case 2:
						r.Read(sig)
						sig[0], sig[1], sig[2], sig[3] = 0xff, 0xff, 0xff, 0xff
					case 3:
						r.Read(sig)
						v := uint32(1) << uint(h)
						sig[0], sig[1], sig[2], sig[3] = byte(v>>24), byte(v>>16), byte(v>>8), byte(v)
					}
					msg := make([]byte, r.Intn(20))
					r.Read(msg)
					e := vEvent{Ev: "case", Class: "untouched-buffer-root", W: 16, H: h, BaseHf: hf, SigLen: len(sig), B0: int(pk[0]), B1: int(pk[1]), Genuine: false, Same16: true}
					e.Out, e.Intact = verifyOut(0, msg, sig, pk)
					tr.Emit(e)
				}
			}
		}
	}
}

// msgLengthSweep: for every message length the genuine triple verifies and no variant of the message does.
func msgLengthSweep(r *rand.Rand, tier string, tr *trace.Buf) {
	maxLen := 200
	if tier == "thorough" {
		maxLen = 700
	}
	var seed [48]uint8
	r.Read(seed[:])
	hf := r.Intn(3)
	x := xmss.NewXMSSFromSeed(seed, 10, xmss.HashFunction(hf), common.SHA256_2X)
	pk := x.GetPK()
	for L := 0; L <= maxLen && int(x.GetIndex()) < 1023; L++ {
		msg := make([]byte, L)
		r.Read(msg)
		idx := int(x.GetIndex())
		sig, err := x.Sign(msg)
		if err != nil {
			break
		}
		base := vEvent{Ev: "case", Class: "len-genuine", W: 16, H: 10, BaseHf: hf, Idx: idx, SigLen: len(sig), B0: int(pk[0]), B1: int(pk[1]), B2: int(pk[2]), Genuine: true, Same16: true}
		base.Out, base.Intact = verifyOut(0, msg, sig, pk)
		tr.Emit(base)
		vars := [][]byte{append(dup(msg), 0), append(dup(msg), byte(1+r.Intn(255)))}
		if L > 0 {
			a := dup(msg)
			a[L-1] ^= 1
			b := dup(msg)
			b[0] ^= 0x80
			vars = append(vars, a, b, msg[:L-1])
		}
		for _, v := range vars {
			e := base
			e.Class = "len-message-variant"
			e.Genuine = false
			e.Out, e.Intact = verifyOut(0, v, sig, pk)
			tr.Emit(e)
		}
	}
}

// msgLengthPathKeys: valid triples of one-path keys for message lengths around every block boundary of the
// three hash functions (thorough: every length up to 1400); the genuine triple verifies, the message with its
// last bit flipped does not
func msgLengthPathKeys(r *rand.Rand, tier string, tr *trace.Buf) {
	for hf := 0; hf < 3; hf++ {
		for _, L := range sweepLengths(r, tier) {
			if L > 70000 {
				continue
			}
			t := pathKey(r, 4, hf, uint32(r.Intn(16)), 4, L)
			e := vEvent{Ev: "case", Class: "len-path-key", W: 16, H: 4, BaseHf: hf, Idx: t.idx, SigLen: len(t.sig), B0: int(t.pk[0]), B1: int(t.pk[1]), B2: int(t.pk[2]), Genuine: true, Same16: true}
			e.Out, e.Intact = verifyOut(0, t.msg, t.sig, t.pk)
			tr.Emit(e)
			if L > 0 {
				v := dup(t.msg)
				v[L-1] ^= 1
				e.Class, e.Genuine = "len-path-key-message-variant", false
				e.Out, e.Intact = verifyOut(0, v, t.sig, t.pk)
				tr.Emit(e)
			}
		}
	}
}

func sortedInts(a []int) []int {
	o := append([]int{}, a...)
	for i := range o {
		for j := i + 1; j < len(o); j++ {
			if o[j] < o[i] {
				o[i], o[j] = o[j], o[i]
			}
		}
	}
	return o
}

func (s scenario) ev(class string) vEvent {
	return vEvent{Ev: "case", Sid: s.sid, Class: class, W: 16, H: s.h, BaseHf: s.hf, Idx: s.idx, SigLen: len(s.sig),
		B0: int(s.pk[0]), B1: int(s.pk[1]), B2: int(s.pk[2]), Genuine: true}
}

func scenarioEvents(s scenario, all []scenario, r *rand.Rand, tier string, b *trace.Buf) {
	emit := func(e vEvent, w uint32, msg, sig []byte, pk [67]uint8) {
		e.W = int(w)
		if w == 0 {
			e.W = 16
		}
		e.SigLen = len(sig)
		e.B0, e.B1, e.B2 = int(pk[0]), int(pk[1]), int(pk[2])
		e.Out, e.Intact = verifyOut(w, msg, sig, pk)
		o16, _ := verifyOut(16, msg, sig, pk)
		o0, _ := verifyOut(0, msg, sig, pk)
		e.Same16 = o16 == o0
		b.Emit(e)
	}
	// the unmodified triple, through both entry points and the other w values
	emit(s.ev("genuine"), 0, s.msg, s.sig, s.pk)
	emit(s.ev("genuine-w16"), 16, s.msg, s.sig, s.pk)
	emit(s.ev("genuine-w4"), 4, s.msg, s.sig, s.pk)
	emit(s.ev("genuine-w256"), 256, s.msg, s.sig, s.pk)
	// every single-bit flip, grouped by byte
	flipAll := func(target string, n int, apply func(off int, bit uint) ([]byte, []byte, [67]uint8)) {
		evs := make([]vEvent, n)
		var wg sync.WaitGroup
		nw := runtime.NumCPU()
		for wk := 0; wk < nw; wk++ {
			wk := wk
			wg.Add(1)
			go func() {
				defer wg.Done()
				for off := wk; off < n; off += nw {
					if s.light && target == "sig" && off >= 4 && off%23 != 0 && off < n-32*s.h {
						continue
					}
					e := s.ev("bitflip")
					e.Ev = "flip"
					e.Target = target
					e.Off = off
					e.Intact = true
					e.Same16 = true
					for bit := uint(0); bit < 8; bit++ {
						m, sg, pk := apply(off, bit)
						o, in := verifyOut(0, m, sg, pk)
						e.Outs = append(e.Outs, o)
						e.Intact = e.Intact && in
					}
					evs[off] = e
				}
			}()
		}
		wg.Wait()
		for _, e := range evs {
			if e.Ev != "" {
				b.Emit(e)
			}
		}
	}
	flipAll("sig", len(s.sig), func(off int, bit uint) ([]byte, []byte, [67]uint8) {
		c := dup(s.sig)
		c[off] ^= 1 << bit
		return s.msg, c, s.pk
	})
	flipAll("pk", 67, func(off int, bit uint) ([]byte, []byte, [67]uint8) {
		p := s.pk
		p[off] ^= 1 << bit
		return s.msg, s.sig, p
	})
	// the SAME bit flipped in two bytes a word apart (a comparison that folds word differences with xor
	// instead of or lets such pairs cancel): public-key root and seed, and the authentication path
	if !s.light {
		for _, d := range []int{8, 1} {
			d := d
			var wg sync.WaitGroup
			evs := make([]vEvent, 67)
			for off := 3; off+d < 67; off++ {
				off := off
				wg.Add(1)
				go func() {
					defer wg.Done()
					e := s.ev("double-bitflip")
					e.Ev, e.Target, e.Off, e.Intact, e.Same16 = "flip", "pk", off, true, true
					for bit := uint(0); bit < 8; bit++ {
						p := s.pk
						p[off] ^= 1 << bit
						p[off+d] ^= 1 << bit
						o, in := verifyOut(0, s.msg, s.sig, p)
						e.Outs = append(e.Outs, o)
						e.Intact = e.Intact && in
					}
					evs[off] = e
				}()
			}
			wg.Wait()
			for _, e := range evs {
				if e.Ev != "" {
					b.Emit(e)
				}
			}
		}
		var wg sync.WaitGroup
		first := len(s.sig) - 32*s.h
		evs := make([]vEvent, len(s.sig))
		for off := first; off+8 < len(s.sig); off += 5 {
			off := off
			wg.Add(1)
			go func() {
				defer wg.Done()
				e := s.ev("double-bitflip")
				e.Ev, e.Target, e.Off, e.Intact, e.Same16 = "flip", "sig", off, true, true
				for bit := uint(0); bit < 8; bit++ {
					c := dup(s.sig)
					c[off] ^= 1 << bit
					c[off+8] ^= 1 << bit
					o, in := verifyOut(0, s.msg, c, s.pk)
					e.Outs = append(e.Outs, o)
					e.Intact = e.Intact && in
				}
				evs[off] = e
			}()
		}
		wg.Wait()
		for _, e := range evs {
			if e.Ev != "" {
				b.Emit(e)
			}
		}
	}
	flipAll("msg", len(s.msg), func(off int, bit uint) ([]byte, []byte, [67]uint8) {
		c := dup(s.msg)
		c[off] ^= 1 << bit
		return c, s.sig, s.pk
	})
	// message variants
	g := s.ev("msg-empty")
	g.Genuine = false
	emit(g, 0, []byte{}, s.sig, s.pk)
	g.Class = "msg-extended"
	emit(g, 0, append(dup(s.msg), 0), s.sig, s.pk)
	g.Class = "msg-truncated"
	emit(g, 0, s.msg[:len(s.msg)-1], s.sig, s.pk)
	// every descriptor value the key could declare: all 256 first bytes, all 256 second bytes
	for v := 0; v < 256; v++ {
		p := s.pk
		p[0] = uint8(v)
		e := s.ev("desc-byte0")
		emit(e, 0, s.msg, s.sig, p)
		p = s.pk
		p[1] = uint8(v)
		e = s.ev("desc-byte1")
		emit(e, 0, s.msg, s.sig, p)
	}
	for _, v := range []int{1, 0x80, 0xff, r.Intn(256)} {
		p := s.pk
		p[2] = uint8(v)
		emit(s.ev("desc-byte2"), 0, s.msg, s.sig, p)
	}
	// signature length changes (content otherwise genuine)
	// (appended bytes random; multiples of 32 that make the derived height wrap in 4, 8 or 16 bits)
	for _, d := range []int{-33, -32, -31, -1, 1, 31, 32, 33, 64, 32 * 15, 32 * 16, 32 * 17, 32 * 255, 32 * 256, 32 * 257, 32 * 512, 32 * 65536} {
		var sg []byte
		if d < 0 {
			sg = dup(s.sig[:len(s.sig)+d])
		} else {
			sg = append(dup(s.sig), make([]byte, d)...)
			if d >= 32*15 {
				r.Read(sg[len(s.sig):])
			}
		}
		e := s.ev("siglen")
		e.Genuine = false
		emit(e, 0, s.msg, sg, s.pk)
		// and with the descriptor adjusted to the new length's height
		if (len(sg)-4)%32 == 0 && len(sg) >= 2180 {
			p := s.pk
			nh := (len(sg) - 2180) / 32
			p[1] = p[1]&0xf0 | uint8(nh/2)&0x0f
			e.Class = "siglen-desc-adjusted"
			emit(e, 0, s.msg, sg, p)
		}
	}
	// components swapped in from other genuine signatures (other key, index, height)
	for _, o := range all {
		if o.sid == s.sid {
			continue
		}
		e := s.ev("foreign-signature")
		e.Genuine = false
		emit(e, 0, s.msg, o.sig, s.pk)
		sameKey := o.pk == s.pk // two scenarios of one key (tall trees): the other's own triple is a valid one
		if !sameKey {
			e.Class = "foreign-signature-own-message"
			emit(e, 0, o.msg, o.sig, s.pk)
			e.Class = "foreign-pk"
			emit(e, 0, s.msg, s.sig, o.pk)
		}
		if len(o.sig) == len(s.sig) {
			// splice single components
			for _, rg := range [][2]int{{0, 4}, {4, 36}, {36, 36 + 2144}, {36 + 2144, len(s.sig)}} {
				c := dup(s.sig)
				copy(c[rg[0]:rg[1]], o.sig[rg[0]:rg[1]])
				if string(c) == string(s.sig) {
					continue
				}
				e.Class = "spliced-component"
				emit(e, 0, s.msg, c, s.pk)
			}
			p := s.pk
			copy(p[3:35], o.pk[3:35])
			e.Class = "foreign-root"
			if p != s.pk {
				emit(e, 0, s.msg, s.sig, p)
			}
			p = s.pk
			copy(p[35:], o.pk[35:])
			e.Class = "foreign-pubseed"
			if p != s.pk {
				emit(e, 0, s.msg, s.sig, p)
			}
		}
	}
	// index field set to other values, the rest genuine
	for _, v := range []uint32{0, 1, uint32(s.idx) + 1, uint32(1<<uint(s.h)) - 1, uint32(1 << uint(s.h)), uint32(s.idx) + uint32(1<<uint(s.h)), 1 << 31, ^uint32(0)} {
		if int(v) == s.idx {
			continue
		}
		c := dup(s.sig)
		c[0], c[1], c[2], c[3] = byte(v>>24), byte(v>>16), byte(v>>8), byte(v)
		e := s.ev("index-field")
		e.Genuine = false
		emit(e, 0, s.msg, c, s.pk)
	}
}

// junkCases: arbitrary-content triples of every length class and descriptor class.
func junkCases(r *rand.Rand, tier string, tr *trace.Buf) {
	reps := 2
	if tier == "thorough" {
		reps = 12
	}
	for _, w := range []uint32{4, 16, 256} {
		p := xmss.VerifWOTSParamsOf(32, w)
		base := int(4 + 32 + p.KeySize)
		lens := []int{0, 1, 4, 36, base - 32, base - 1, base, base + 1, base + 31, base + 33, base + 32*30 - 1, base + 32*30 + 1, 2 * (base + 32*30)}
		for k := 0; k <= 31; k++ {
			lens = append(lens, base+32*k)
		}
		for _, n := range lens {
			for rep := 0; rep < reps; rep++ {
				sig := make([]byte, n)
				var pk [67]uint8
				msg := make([]byte, r.Intn(40))
				switch rep % 4 {
				case 0:
					r.Read(sig)
					r.Read(pk[:])
				case 1: // all zero content (the shape of finding F1)
				case 2:
					for i := range sig {
						sig[i] = 0xff
					}
					for i := range pk {
						pk[i] = 0xff
					}
				case 3:
					r.Read(sig)
				}
				r.Read(msg)
				// descriptor consistent with the length in half of the cases
				if rep%2 == 0 || rep%4 == 1 {
					pk[0] = uint8(r.Intn(16))
					if rep%4 == 1 {
						pk[0] = uint8(3 + r.Intn(13)) // unsupported hash function ids
					}
					if n >= base && (n-base)%32 == 0 {
						pk[1] = uint8((n-base)/32/2) & 0x0f
					}
				}
				e := vEvent{Ev: "case", Class: "junk", W: int(w), SigLen: n, B0: int(pk[0]), B1: int(pk[1]), B2: int(pk[2]), Genuine: false}
				e.Out, e.Intact = verifyOut(w, msg, sig, pk)
				e.Same16 = true
				if w == 16 {
					o0, _ := verifyOut(0, msg, sig, pk)
					e.Same16 = o0 == e.Out
				}
				tr.Emit(e)
			}
		}
	}
}
