// xmssdrive drives real xmss.XMSS objects and records one trace event per
// public call for spec/TraceXmssKey.tla (properties C01, C02, C08).
package main

import (
	"crypto/sha256"
	"encoding/binary"
	"encoding/hex"
	"encoding/json"
	"flag"
	"fmt"
	"math/rand"
	"os"
	"runtime"
	"strconv"
	"strings"
	"sync"
	"time"

	"github.com/theQRL/go-qrllib/common"
	"github.com/theQRL/go-qrllib/misc"
	"github.com/theQRL/go-qrllib/xmss"

	"verifharness/trace"
	"verifharness/xproj"
)

type sigInfo struct {
	Idx         int          `json:"idx"`
	Auth        []xproj.Node `json:"auth"`
	Verify      string       `json:"verify"`
	VerifyOther string       `json:"verifyOther"`
	D           string       `json:"d"`
	Len         int          `json:"len"`
}

type event struct {
	Ev      string       `json:"ev"`
	K       int          `json:"k"`
	Fam     int          `json:"fam"`
	From    *int         `json:"from,omitempty"`
	H       int          `json:"H"`
	Hf      int          `json:"hf"`
	Arg     *int         `json:"arg,omitempty"`
	ArgRaw  string       `json:"argraw,omitempty"`
	Msg     int          `json:"msg"`
	Res     string       `json:"res"`
	Idx     int          `json:"idx"`
	St      *xproj.State `json:"st,omitempty"`
	Sig     *sigInfo     `json:"sig,omitempty"`
	Pkid    string       `json:"pkid"`
	RawSame bool         `json:"rawsame"`
	RootOK  bool         `json:"rootok"`
	Route   string       `json:"route,omitempty"`
	NoModel bool         `json:"nomodel"`
	// the key's descriptor names a hash function the library does not implement: judged as a counter only
	CounterOnly bool `json:"counteronly"`
	// Sign: the signatures returned earlier by this object still hold the bytes they held when returned
	// Drop: what the object's getters returned (slices) is unchanged after the object was dropped and collected
	KeptSame bool `json:"keptsame"`
}

var (
	keyCtr  int
	famCtr  int
	ctrMu   sync.Mutex
	seamOn  bool
	posOn   bool // positional tree: leaf seam AND node seam, nothing is hashed
	seamTag uint64
)

func nextKey() int { ctrMu.Lock(); defer ctrMu.Unlock(); keyCtr++; return keyCtr }
func nextFam() int { ctrMu.Lock(); defer ctrMu.Unlock(); famCtr++; return famCtr }

type keyObj struct {
	x    *xmss.XMSS
	id   int
	fam  int
	h    int
	hf   xmss.HashFunction
	tree *xproj.Tree
	tr   *trace.Buf
	// the signatures this object returned, kept by the caller exactly as returned (same slices), with copies
	kept, keptCopy [][]byte
}

// msgBytes: message number m; every seventh message is the empty message
func msgBytes(m int) []byte {
	if m%7 == 3 {
		return []byte{}
	}
	return []byte("verif-msg-" + strconv.Itoa(m))
}

func pkid(x *xmss.XMSS) string {
	hh := sha256.New()
	pk := x.GetPK()
	hh.Write(pk[:])
	a := x.GetAddress()
	hh.Write(a[:])
	s := x.GetSeed()
	hh.Write(s[:])
	es := x.GetExtendedSeed()
	hh.Write(es[:])
	hh.Write([]byte{x.GetHeight()})
	hh.Write([]byte(x.GetHexSeed()))
	hh.Write([]byte(x.GetMnemonic()))
	hh.Write(x.GetRoot())
	hh.Write(x.GetPKSeed())
	la := x.GetLegacyAddress()
	hh.Write(la[:])
	return hex.EncodeToString(hh.Sum(nil)[:12])
}

// call runs f and classifies its termination.
func call(f func()) (res string) {
	defer func() {
		if r := recover(); r != nil {
			switch v := r.(type) {
			case string:
				res = "refused:" + v
			case runtime.Error:
				res = "runtime:" + v.Error()
			case error:
				res = "panic-error:" + v.Error()
			default:
				res = fmt.Sprintf("panic-other:%v", v)
			}
		}
	}()
	f()
	return "ok"
}

func buildTree(x *xmss.XMSS) *xproj.Tree {
	s := xmss.VerifSnapshot(x)
	h := int(s.Height)
	skSeed := s.SK[4:36]
	pubSeed := s.SK[68:100]
	if posOn {
		return xproj.NewPositional(h, s.HashFn, seamTag)
	}
	if seamOn {
		mk := xproj.Build
		if h >= 21 {
			mk = xproj.BuildLight
		}
		t := mk(h, s.HashFn, pubSeed, func(i uint32) []byte { return xproj.SeamLeaf(seamTag, i) })
		t.Seam = true
		return t
	}
	return xproj.Build(h, s.HashFn, pubSeed, xproj.RealLeafFn(s.HashFn, h, skSeed, pubSeed))
}

func (k *keyObj) base(ev string) event {
	return event{Ev: ev, K: k.id, Fam: k.fam, H: k.h, Hf: int(k.hf), Idx: int(k.x.GetIndex()), Pkid: pkid(k.x), RawSame: true, KeptSame: true}
}

func (k *keyObj) emitState(e *event) {
	s := xmss.VerifSnapshot(k.x)
	if k.tree.Light { // no reverse index: the state is not projected (objects of such trees are never on the model)
		s.Stack, s.Auth, s.Keep, s.Retain = make([]byte, len(s.Stack)), make([]byte, len(s.Auth)), make([]byte, len(s.Keep)), make([]byte, len(s.Retain))
		for i := range s.TreeHash {
			s.TreeHash[i] = xmss.VerifTreeHash{Node: make([]byte, 32)}
		}
		s.StackOffset = 0
		for i := range s.StackLevels {
			s.StackLevels[i] = 0
		}
		st := k.tree.ZeroState(&s)
		e.St = &st
		return
	}
	st := k.tree.ProjectState(&s)
	e.St = &st
}

// newKey wraps a freshly constructed object and emits KeyGen. tree may be shared
// by objects of the same family (same seed and parameters).
var noModel bool // tall trees: observables only
var counterOnly bool

func newKey(x *xmss.XMSS, fam int, tree *xproj.Tree, route string, tr *trace.Buf) *keyObj {
	k := &keyObj{x: x, id: nextKey(), fam: fam, h: int(x.GetHeight()), tr: tr}
	s := xmss.VerifSnapshot(x)
	k.hf = s.HashFn
	if tree == nil {
		tree = buildTree(x)
	}
	k.tree = tree
	e := k.base("KeyGen")
	e.Route = route
	e.NoModel = noModel
	e.CounterOnly = counterOnly
	e.RootOK = string(x.GetRoot()) == string(tree.Root())
	k.emitState(&e)
	tr.Emit(e)
	return k
}

func (k *keyObj) clone() *keyObj {
	c := &keyObj{x: xmss.VerifClone(k.x), id: nextKey(), fam: k.fam, h: k.h, hf: k.hf, tree: k.tree, tr: k.tr}
	e := c.base("Clone")
	from := k.id
	e.From = &from
	c.emitState(&e)
	k.tr.Emit(e)
	return c
}

func (k *keyObj) drop(withFam bool) {
	e := event{Ev: "Drop", K: k.id, Fam: -1, KeptSame: true}
	if withFam {
		e.Fam = k.fam
	}
	// what the getters returned belongs to the caller: dropping the object (and a garbage collection, which runs
	// finalizers) must not change it
	got := [][]byte{k.x.GetSK(), k.x.GetRoot(), k.x.GetPKSeed()}
	pk := k.x.GetPK()
	var cp [][]byte
	for _, g := range got {
		cp = append(cp, append([]byte{}, g...))
	}
	k.x = nil
	runtime.GC()
	runtime.GC()
	time.Sleep(2 * time.Millisecond)
	for i := range got {
		if string(got[i]) != string(cp[i]) {
			e.KeptSame = false
		}
	}
	if len(got[1]) == 32 && string(got[1]) != string(pk[3:35]) {
		e.KeptSame = false
	}
	k.tr.Emit(e)
}

func (k *keyObj) sign(m int) ([]byte, string) {
	before := xmss.VerifSnapshot(k.x)
	var sig []byte
	var err error
	res := call(func() { sig, err = k.x.Sign(msgBytes(m)) })
	if res == "ok" && err != nil {
		res = "error:" + err.Error()
	}
	after := xmss.VerifSnapshot(k.x)
	e := k.base("Sign")
	e.Msg = m
	e.Res = res
	e.RawSame = xproj.RawEqual(&before, &after)
	k.emitState(&e)
	for i := range k.kept {
		if string(k.kept[i]) != string(k.keptCopy[i]) {
			e.KeptSame = false
		}
	}
	if res == "ok" && len(k.kept) < 40 {
		k.kept = append(k.kept, sig)
		k.keptCopy = append(k.keptCopy, append([]byte{}, sig...))
	}
	if res == "ok" {
		si := &sigInfo{Len: len(sig), Verify: "na", VerifyOther: "na"}
		if len(sig) >= 4+32*k.h {
			si.Idx = int(binary.BigEndian.Uint32(sig[:4]))
			if si.Idx < 0 || si.Idx > 1<<31-1 {
				si.Idx = 1<<31 - 1
			}
			if k.tree.Light {
				si.Auth = k.tree.ProjectAuth(uint32(si.Idx), sig[len(sig)-32*k.h:])
			} else {
				si.Auth = k.tree.ProjectAll(sig[len(sig)-32*k.h:])
			}
		}
		d := sha256.Sum256(sig)
		si.D = hex.EncodeToString(d[:12])
		if !k.tree.Seam {
			pk := k.x.GetPK()
			si.Verify = strconv.FormatBool(safeVerify(msgBytes(m), sig, pk))
			si.VerifyOther = strconv.FormatBool(safeVerify(append(msgBytes(m), 'x'), sig, pk))
		}
		e.Sig = si
	}
	k.tr.Emit(e)
	return sig, res
}

func safeVerify(m, sig []byte, pk [xmss.ExtendedPKSize]uint8) (ok bool) {
	defer func() {
		if r := recover(); r != nil {
			ok = false
		}
	}()
	return xmss.Verify(m, sig, pk)
}

func (k *keyObj) setIndex(j uint32) string {
	before := xmss.VerifSnapshot(k.x)
	res := call(func() { k.x.SetIndex(j) })
	after := xmss.VerifSnapshot(k.x)
	e := k.base("SetIndex")
	a := int(j)
	if j > 1<<31-1 {
		a = 1<<31 - 1
	}
	e.Arg = &a
	e.ArgRaw = strconv.FormatUint(uint64(j), 10)
	e.Res = res
	e.RawSame = xproj.RawEqual(&before, &after)
	k.emitState(&e)
	k.tr.Emit(e)
	return res
}

func seedFrom(r *rand.Rand) (s [common.SeedSize]uint8) {
	r.Read(s[:])
	return
}

// ---------------------------------------------------------------------------

type stats struct {
	Events     int            `json:"events"`
	Keys       int            `json:"keys"`
	Families   int            `json:"families"`
	Signatures int            `json:"signatures"`
	Modes      map[string]int `json:"modes"`
	WallS      float64        `json:"wall_s"`
}

// walk: sign at every index of a fresh key, then poke the exhausted key.
func walk(h int, hf xmss.HashFunction, seed [48]uint8, tr *trace.Buf) int {
	x := xmss.NewXMSSFromSeed(seed, uint8(h), hf, common.SHA256_2X)
	k := newKey(x, nextFam(), nil, "seed", tr)
	n := 1 << uint(h)
	sigs := 0
	for i := 0; i < n; i++ {
		if _, r := k.sign(i); r == "ok" {
			sigs++
		}
	}
	// exhausted: nothing may be produced any more, nothing may move
	k.sign(n)
	k.setIndex(uint32(n - 1))
	k.setIndex(uint32(n))
	k.setIndex(0)
	k.setIndex(^uint32(0))
	k.sign(n + 1)
	k.drop(true)
	return sigs
}

func jumpTargets(i, n, h int, mode string, r *rand.Rand) []int {
	set := map[int]bool{}
	switch {
	case mode == "all":
		for j := i; j < n; j++ {
			set[j] = true
		}
	case mode == "classes":
		for _, d := range []int{0, 1, 2, 3} {
			set[i+d] = true
		}
		for e := 2; e <= h; e++ {
			for _, d := range []int{-1, 0, 1} {
				set[i+(1<<uint(e))+d] = true
			}
		}
		set[n-2] = true
		set[n-1] = true
	case strings.HasPrefix(mode, "sample:"):
		c, _ := strconv.Atoi(mode[7:])
		for q := 0; q < c; q++ {
			set[i+r.Intn(n-i)] = true
		}
		set[n-1] = true
	}
	var out []int
	for j := range set {
		if j >= i && j < n {
			out = append(out, j)
		}
	}
	// deterministic order
	for a := 0; a < len(out); a++ {
		for b := a + 1; b < len(out); b++ {
			if out[b] < out[a] {
				out[a], out[b] = out[b], out[a]
			}
		}
	}
	return out
}

// jumps: a base key walks by signing; at every index a clone jumps to each
// target and signs there (and once more). Clones are taken sequentially (their
// Clone events are in trace order), the jumps themselves run in parallel and
// their events are appended afterwards: a clone's events depend only on the
// clone's own previous state.
func jumps(h int, hf xmss.HashFunction, seed [48]uint8, mode string, stride int, r *rand.Rand, tr *trace.Buf) int {
	x := xmss.NewXMSSFromSeed(seed, uint8(h), hf, common.SHA256_2X)
	k := newKey(x, nextFam(), nil, "seed", tr)
	n := 1 << uint(h)
	sigs := 0
	var wg sync.WaitGroup
	var mu sync.Mutex
	var bufs []*trace.Buf
	sem := make(chan struct{}, runtime.NumCPU())
	for i := 0; i < n; i++ {
		if stride <= 1 || i%stride == 0 || i == n-1 || (i&(i+1)) == 0 || (i&(i-1)) == 0 {
			for _, j := range jumpTargets(i, n, h, mode, r) {
				c := k.clone()
				b := &trace.Buf{}
				c.tr = b
				bufs = append(bufs, b)
				j := j
				wg.Add(1)
				sem <- struct{}{}
				go func() {
					defer wg.Done()
					defer func() { <-sem }()
					got := 0
					c.setIndex(uint32(j))
					if _, rr := c.sign(j); rr == "ok" {
						got++
					}
					if j+1 < n {
						if _, rr := c.sign(j + 1); rr == "ok" {
							got++
						}
					}
					c.drop(false)
					mu.Lock()
					sigs += got
					mu.Unlock()
				}()
			}
		}
		if _, rr := k.sign(i); rr == "ok" {
			mu.Lock()
			sigs++
			mu.Unlock()
		}
	}
	wg.Wait()
	for _, b := range bufs {
		tr.Append(b)
	}
	k.drop(true)
	return sigs
}

// counter: keys whose descriptor carries a hash-function id the library does not implement (3..15). The
// constructors accept them and the objects sign; C02 speaks about every key object, so their whole life is
// walked as a counter automaton: every Sign up to and beyond exhaustion, refused jumps, a forward jump.
func counter(h int, seed [48]uint8, r *rand.Rand, tr *trace.Buf) int {
	noModel, counterOnly = true, true
	defer func() { noModel, counterOnly = false, false }()
	n := 1 << uint(h)
	sigs := 0
	ids := []int{3, 4 + r.Intn(11), 15}
	for ci, id := range ids {
		var x *xmss.XMSS
		route := "seed"
		if ci == 1 { // through the descriptor bytes of an extended seed
			d := xmss.NewQRLDescriptor(uint8(h), xmss.HashFunction(id), common.XMSSSig, common.SHA256_2X).GetBytes()
			var es [common.ExtendedSeedSize]uint8
			copy(es[:], d[:])
			copy(es[common.DescriptorSize:], seed[:])
			x = xmss.NewXMSSFromExtendedSeed(es)
			route = "extendedSeed"
		} else {
			x = xmss.NewXMSSFromSeed(seed, uint8(h), xmss.HashFunction(id), common.SHA256_2X)
		}
		k := newKey(x, nextFam(), nil, route, tr)
		m := 0
		sg := func() {
			if _, rr := k.sign(m); rr == "ok" {
				sigs++
			}
			m++
		}
		sg()
		sg()
		k.setIndex(0) // rewind: refused
		k.setIndex(uint32(n))
		if ci == 2 {
			k.setIndex(uint32(n/2 + 1))
		}
		for q := 0; q < n+2 && int(k.x.GetIndex()) < n; q++ {
			sg()
		}
		sg() // exhausted: refused, twice
		sg()
		k.setIndex(uint32(n - 1))
		k.setIndex(^uint32(0))
		k.drop(true)
	}
	return sigs
}

// tall: a tall tree (synthetic leaves) visited around the places where the 4-byte index carries
// (2^8, 2^16) and at the end of its life; observables only (nomodel).
func tall(h int, hf xmss.HashFunction, seed [48]uint8, r *rand.Rand, tr *trace.Buf) int {
	noModel = true
	defer func() { noModel = false }()
	x := xmss.NewXMSSFromSeed(seed, uint8(h), hf, common.SHA256_2X)
	k := newKey(x, nextFam(), nil, "seed", tr)
	n := 1 << uint(h)
	sigs := 0
	stops := []int{0, 253, 1<<16 - 3, 1<<16 + 250, n/4 - 2, n/2 - 2, n - 3}
	far := h < 21 || posOn && h <= 24 // positional trees: nothing is hashed, a height-24 tree is walked to its end
	if !far {                         // the far half of a very tall tree costs minutes of traversal: stop after the first quarter
		stops = []int{0, 253, 1<<16 - 3, 1<<16 + 250, n/4 - 2}
		if n/4 > 1<<24 { // heights 28, 30: the jump is bounded by 2^24 rounds
			stops[4] = 1<<24 - 2
		}
	}
	m := 0
	for _, s := range stops {
		if s < 0 || s >= n || s < int(k.x.GetIndex()) {
			continue
		}
		k.setIndex(uint32(s))
		for q := 0; q < 6 && int(k.x.GetIndex()) < n; q++ {
			if _, rr := k.sign(m); rr == "ok" {
				sigs++
			}
			m++
		}
	}
	if !far {
		k.setIndex(uint32(n))
		k.setIndex(^uint32(0))
		k.drop(true)
		return sigs
	}
	// exhausted (or nearly): the borders. Bounded: a key whose index does not advance must not hang the driver.
	for q := 0; q < 12 && int(k.x.GetIndex()) < n; q++ {
		if _, rr := k.sign(m); rr == "ok" {
			sigs++
		}
		m++
	}
	k.sign(m)
	k.setIndex(uint32(n))
	k.setIndex(uint32(n - 1))
	k.setIndex(0)
	k.sign(m + 1)
	k.drop(true)
	return sigs
}

// tallrebuild (C08 at heights whose index needs 3 bytes): an original object signs across 2^16; objects
// rebuilt from the seed reach the same indices by one jump, by two jumps and by signing after a jump,
// and must be in the same live state and give the same signatures (family tables; observables only).
func tallRebuild(h int, hf xmss.HashFunction, seed [48]uint8, r *rand.Rand, tr *trace.Buf) int {
	noModel = true
	defer func() { noModel = false }()
	fam := nextFam()
	sigs := 0
	signN := func(k *keyObj, n int) {
		for q := 0; q < n; q++ {
			if _, rr := k.sign(int(k.x.GetIndex())); rr == "ok" {
				sigs++
			}
		}
	}
	o := newKey(xmss.NewXMSSFromSeed(seed, uint8(h), hf, common.SHA256_2X), fam, nil, "seed", tr)
	base := 1<<16 - 4
	o.setIndex(uint32(base))
	signN(o, 10) // across 65535 -> 65536, up to 65541
	a := newKey(xmss.NewXMSSFromSeed(seed, uint8(h), hf, common.SHA256_2X), fam, o.tree, "seed+jump", tr)
	a.setIndex(uint32(base + 4)) // exactly 2^16 in one jump
	signN(a, 5)
	// rebuilt from what the original exports (extended seed = descriptor || seed), as a wallet restores it
	var bx *xmss.XMSS
	if res := call(func() { bx = xmss.NewXMSSFromExtendedSeed(o.x.GetExtendedSeed()) }); res != "ok" || bx == nil {
		tr.Emit(event{Ev: "RebuildFailed", K: -1, Fam: fam, H: h, Hf: int(hf), Res: res, Route: "extendedSeed"})
		bx = xmss.NewXMSSFromSeed(seed, uint8(h), hf, common.SHA256_2X)
	}
	b := newKey(bx, fam, o.tree, "extendedSeed+2jumps", tr)
	b.setIndex(uint32(base + 1))
	b.setIndex(uint32(base + 5)) // a jump that starts below 2^16 and ends above
	signN(b, 4)
	c := newKey(xmss.NewXMSSFromSeed(seed, uint8(h), hf, common.SHA256_2X), fam, o.tree, "seed+jump+sign+jump", tr)
	c.setIndex(uint32(base + 2))
	signN(c, 3) // signs 65534, 65535, 65536
	c.setIndex(uint32(base + 7))
	signN(c, 2)
	// a jump to an index whose low byte(s) are 0xff, then signing across the carry
	d := newKey(xmss.NewXMSSFromSeed(seed, uint8(h), hf, common.SHA256_2X), fam, o.tree, "seed+jump-to-ffff", tr)
	d.setIndex(uint32(base + 3)) // 65535
	signN(d, 3)
	a.drop(false)
	b.drop(false)
	c.drop(false)
	d.drop(false)
	o.drop(true)
	return sigs
}

// random: random call sequences around the interesting arguments, until the key
// is exhausted and a few calls beyond.
func random(h int, hf xmss.HashFunction, seed [48]uint8, r *rand.Rand, tr *trace.Buf) int {
	x := xmss.NewXMSSFromSeed(seed, uint8(h), hf, common.SHA256_2X)
	k := newKey(x, nextFam(), nil, "seed", tr)
	n := 1 << uint(h)
	sigs := 0
	m := 0
	beyond := 0
	for steps := 0; steps < 6*n && beyond < 6; steps++ {
		idx := int(k.x.GetIndex())
		if idx >= n {
			beyond++
		}
		switch r.Intn(10) {
		case 0, 1, 2, 3, 4:
			if _, rr := k.sign(m); rr == "ok" {
				sigs++
			}
			m++
		default:
			var j uint32
			switch r.Intn(12) {
			case 0:
				j = 0
			case 1:
				j = uint32(idx)
			case 2:
				j = uint32(idx + 1)
			case 3:
				if idx > 0 {
					j = uint32(idx - 1)
				}
			case 4:
				j = uint32(n - 1)
			case 5:
				j = uint32(n)
			case 6:
				j = uint32(n + 1)
			case 7:
				j = ^uint32(0)
			case 8:
				j = 1<<31 - 1
			case 9:
				j = 1 << 31
			default:
				if idx < n {
					span := (n - idx)
					if span > 8 && r.Intn(3) > 0 {
						span = 8
					}
					j = uint32(idx + r.Intn(span))
				} else {
					j = uint32(r.Intn(n))
				}
			}
			k.setIndex(j)
		}
	}
	k.drop(true)
	return sigs
}

// rebuild (C08): the original signs its way through the key's life; at chosen
// crash indices the object is discarded and rebuilt from the seed, the extended
// seed and the mnemonic, fast-forwarded in one or several jumps, and must then
// produce the same signatures as the original for `window` indices.
func rebuild(h int, hf xmss.HashFunction, seed [48]uint8, window int, crashEvery int, r *rand.Rand, tr *trace.Buf) int {
	x := xmss.NewXMSSFromSeed(seed, uint8(h), hf, common.SHA256_2X)
	fam := nextFam()
	k := newKey(x, fam, nil, "seed", tr)
	n := 1 << uint(h)
	sigs := 0
	ext := x.GetExtendedSeed()
	mn := x.GetMnemonic()
	var crash []int
	for i := 0; i <= n; i++ {
		if crashEvery <= 1 || i%crashEvery == 0 || i >= n-2 || (i&(i+1)) == 0 || (i&(i-1)) == 0 {
			crash = append(crash, i)
		}
	}
	// original: whole life first (its signatures define the family's record)
	for i := 0; i < n; i++ {
		if _, rr := k.sign(i); rr == "ok" {
			sigs++
		}
	}
	bufs := make([]*trace.Buf, len(crash))
	cnt := make([]int, len(crash))
	var wg sync.WaitGroup
	sem := make(chan struct{}, runtime.NumCPU())
	for ci, i := range crash {
		ci, i := ci, i
		rr := rand.New(rand.NewSource(r.Int63()))
		wg.Add(1)
		sem <- struct{}{}
		go func() {
			defer wg.Done()
			defer func() { <-sem }()
			b := &trace.Buf{}
			bufs[ci] = b
			cont := func(o *keyObj) {
				for j := i; j < n && j < i+window; j++ {
					if _, q := o.sign(j); q == "ok" {
						cnt[ci]++
					}
				}
				if i >= n {
					o.sign(i)
				}
				o.drop(false)
			}
			// A: seed + one jump
			a := newKey(xmss.NewXMSSFromSeed(seed, uint8(h), hf, common.SHA256_2X), fam, k.tree, "seed+jump", b)
			a.setIndex(uint32(i))
			cont(a)
			// B: extended seed + two jumps
			bk := newKey(xmss.NewXMSSFromExtendedSeed(ext), fam, k.tree, "extseed+2jumps", b)
			if i > 0 {
				bk.setIndex(uint32(rr.Intn(i + 1)))
			}
			bk.setIndex(uint32(i))
			cont(bk)
			// C: mnemonic + signatures then a jump
			ck := newKey(xmss.NewXMSSFromExtendedSeed(misc.MnemonicToExtendedSeedBin(mn)), fam, k.tree, "mnemonic+sign+jump", b)
			pre := 0
			if i > 0 {
				pre = rr.Intn(min(i, 3) + 1)
			}
			for j := 0; j < pre; j++ {
				if _, q := ck.sign(j); q == "ok" {
					cnt[ci]++
				}
			}
			ck.setIndex(uint32(i))
			cont(ck)
		}()
	}
	wg.Wait()
	for ci := range crash {
		tr.Append(bufs[ci])
		sigs += cnt[ci]
	}
	k.drop(true)
	return sigs
}

type planOp struct {
	Op  string `json:"op"`
	O   string `json:"o"`
	Arg int    `json:"arg"`
}

// plan (spec -> code): behaviours generated by TLC from spec/SimWallet.tla are
// executed operation by operation on real objects of one seed.
func plan(h int, hf xmss.HashFunction, path string, r *rand.Rand, tr *trace.Buf) int {
	raw, err := os.ReadFile(path)
	if err != nil {
		fmt.Fprintln(os.Stderr, err)
		os.Exit(2)
	}
	var behaviours [][]planOp
	if err := json.Unmarshal(raw, &behaviours); err != nil {
		fmt.Fprintln(os.Stderr, err)
		os.Exit(2)
	}
	n := 1 << uint(h)
	bufs := make([]*trace.Buf, len(behaviours))
	cnt := make([]int, len(behaviours))
	var wg sync.WaitGroup
	sem := make(chan struct{}, runtime.NumCPU())
	for bi, beh := range behaviours {
		bi, beh := bi, beh
		seed := seedFrom(r)
		wg.Add(1)
		sem <- struct{}{}
		go func() {
			defer wg.Done()
			defer func() { <-sem }()
			b := &trace.Buf{}
			bufs[bi] = b
			fam := nextFam()
			objs := map[string]*keyObj{}
			var tree *xproj.Tree
			desc := xmss.NewQRLDescriptor(uint8(h), hf, common.XMSSSig, common.SHA256_2X).GetBytes()
			var ext [common.ExtendedSeedSize]uint8
			copy(ext[:3], desc[:])
			copy(ext[3:], seed[:])
			for _, op := range beh {
				o := objs[op.O]
				switch {
				case strings.HasPrefix(op.Op, "Rebuild:"):
					var x *xmss.XMSS
					switch op.Op[8:] {
					case "seed+params":
						x = xmss.NewXMSSFromSeed(seed, uint8(h), hf, common.SHA256_2X)
					case "extendedSeed":
						x = xmss.NewXMSSFromExtendedSeed(ext)
					default:
						x = xmss.NewXMSSFromExtendedSeed(misc.MnemonicToExtendedSeedBin(misc.ExtendedSeedBinToMnemonic(ext)))
					}
					k := newKey(x, fam, tree, op.Op[8:], b)
					tree = k.tree
					objs[op.O] = k
				case op.Op == "Crash":
					if o != nil {
						o.drop(false)
						delete(objs, op.O)
					}
				case op.Op == "Sign":
					if o != nil {
						m := int(o.x.GetIndex())
						if m > n {
							m = n
						}
						if _, q := o.sign(m); q == "ok" {
							cnt[bi]++
						}
					}
				case op.Op == "SetIndex":
					if o != nil {
						o.setIndex(uint32(op.Arg))
					}
				}
			}
			for _, o := range objs {
				o.drop(false)
			}
			b.Emit(event{Ev: "Drop", K: -1, Fam: fam, KeptSame: true})
		}()
	}
	wg.Wait()
	sigs := 0
	for bi := range behaviours {
		tr.Append(bufs[bi])
		sigs += cnt[bi]
	}
	return sigs
}

func min(a, b int) int {
	if a < b {
		return a
	}
	return b
}

func main() {
	h := flag.Int("h", 4, "tree height")
	hfs := flag.String("hf", "0,1,2", "hash functions")
	modes := flag.String("modes", "walk", "comma list: walk,jumps,random,rebuild")
	jumpMode := flag.String("jumpmode", "all", "all | classes | sample:n")
	stride := flag.Int("stride", 1, "jumps: only from every stride-th index (plus powers of two)")
	window := flag.Int("window", 8, "rebuild: signatures compared after each crash index")
	crashEvery := flag.Int("crashevery", 1, "rebuild: crash at every n-th index")
	reps := flag.Int("reps", 1, "random: sequences per hash function")
	planFile := flag.String("plan", "", "plan: JSON list of behaviours (lists of {op,o,arg}) generated by TLC")
	seam := flag.Bool("seam", false, "install the leaf seam (synthetic leaves)")
	pos := flag.Bool("pos", false, "install the leaf seam and the node seam (positional tree: any height, nothing hashed)")
	seed := flag.Int64("seed", 1, "VERIF_SEED")
	out := flag.String("out", "", "trace file")
	statsOut := flag.String("stats", "", "stats json")
	flag.Parse()

	t0 := time.Now()
	r := rand.New(rand.NewSource(*seed*7919 + int64(*h)))
	if *seam {
		seamOn = true
		seamTag = uint64(r.Int63())
		xmss.VerifLeafHook = func(hf xmss.HashFunction, leaf []uint8, idx uint32) bool {
			copy(leaf, xproj.SeamLeaf(seamTag, idx))
			return true
		}
	}
	if *pos {
		seamOn, posOn = true, true
		seamTag = uint64(r.Int63())
		xmss.VerifLeafHook = func(hf xmss.HashFunction, leaf []uint8, idx uint32) bool {
			copy(leaf, xproj.PosNode(seamTag, 0, idx))
			return true
		}
		xmss.VerifNodeHook = func(hf xmss.HashFunction, out []uint8, addr *[8]uint32) bool {
			if addr[3] != 2 {
				return false
			}
			copy(out, xproj.PosNode(seamTag, int(addr[5])+1, addr[6]))
			return true
		}
	}
	tr := &trace.Buf{}
	st := stats{Modes: map[string]int{}}
	for _, hs := range strings.Split(*hfs, ",") {
		hv, err := strconv.Atoi(hs)
		if err != nil {
			fmt.Fprintln(os.Stderr, "bad hf", hs)
			os.Exit(2)
		}
		hf := xmss.HashFunction(hv)
		for _, m := range strings.Split(*modes, ",") {
			before := tr.N
			switch m {
			case "walk":
				st.Signatures += walk(*h, hf, seedFrom(r), tr)
			case "jumps":
				st.Signatures += jumps(*h, hf, seedFrom(r), *jumpMode, *stride, r, tr)
			case "random":
				for q := 0; q < *reps; q++ {
					st.Signatures += random(*h, hf, seedFrom(r), r, tr)
				}
			case "rebuild":
				st.Signatures += rebuild(*h, hf, seedFrom(r), *window, *crashEvery, r, tr)
			case "tallrebuild":
				st.Signatures += tallRebuild(*h, hf, seedFrom(r), r, tr)
			case "tall":
				st.Signatures += tall(*h, hf, seedFrom(r), r, tr)
			case "counter":
				st.Signatures += counter(*h, seedFrom(r), r, tr)
			case "plan":
				st.Signatures += plan(*h, hf, *planFile, r, tr)
			default:
				fmt.Fprintln(os.Stderr, "unknown mode", m)
				os.Exit(2)
			}
			st.Modes[m] += tr.N - before
		}
	}
	st.Events = tr.N
	st.Keys = keyCtr
	st.Families = famCtr
	st.WallS = time.Since(t0).Seconds()
	if err := tr.WriteFile(*out); err != nil {
		fmt.Fprintln(os.Stderr, err)
		os.Exit(2)
	}
	if *statsOut != "" {
		trace.WriteJSON(*statsOut, st)
	}
}
