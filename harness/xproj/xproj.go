// Package xproj builds the complete Merkle tree of an XMSS key with the
// library's own leaf and node functions but WITHOUT any traversal state, and
// projects 32-byte values found in a key's BDS state or in a signature to
// symbolic tree nodes <<height, index>> (the node algebra of spec/Bds.tla).
package xproj

import (
	"bytes"
	"crypto/sha256"
	"encoding/binary"
	"runtime"
	"sync"

	"github.com/theQRL/go-qrllib/xmss"
)

// Node is <<height, index>>; Zero = <<-1,-1>> (32 zero bytes), Bad = <<-2,-2>>.
type Node [2]int

var (
	Zero = Node{-1, -1}
	Bad  = Node{-2, -2}
)

type Tree struct {
	H      int
	Hf     xmss.HashFunction
	Levels [][][]byte // Levels[j][i] = node <<j,i>>
	index  map[[32]byte]Node
	Seam   bool
	// Light: no reverse index (very tall trees): only ProjectAuth is available, which compares a
	// signature's authentication path with the true siblings level by level
	Light bool
	// Pos: positional tree - every node (leaves included) is PosNode(tag, level, index), supplied to the
	// library through the leaf and the node seam. Nothing is stored: any height costs nothing here, and a
	// 32-byte value is projected by decoding it.
	Pos bool
	Tag uint64
}

// PosNode is the value of node <<j,i>> in a positional tree: decodable, distinct per (tag, j, i), never all zero.
func PosNode(tag uint64, j int, i uint32) []byte {
	b := make([]byte, 32)
	binary.BigEndian.PutUint64(b[:8], tag)
	b[8] = byte(j)
	binary.BigEndian.PutUint32(b[9:13], i)
	copy(b[13:17], "node")
	for k := 17; k < 32; k++ { // filler derived from the position, so that a partly overwritten value does not decode
		b[k] = b[k-17] ^ b[(k-9)%13] ^ byte(k*37)
	}
	return b
}

// NewPositional: the tree of height h whose nodes are PosNode values.
func NewPositional(h int, hf xmss.HashFunction, tag uint64) *Tree {
	return &Tree{H: h, Hf: hf, Pos: true, Tag: tag, Seam: true}
}

func (t *Tree) decodePos(v []byte) Node {
	if len(v) != 32 {
		return Bad
	}
	if bytes.Equal(v, zero32[:]) {
		return Zero
	}
	if binary.BigEndian.Uint64(v[:8]) != t.Tag {
		return Bad
	}
	j, i := int(v[8]), binary.BigEndian.Uint32(v[9:13])
	if j > t.H || uint64(i) >= uint64(1)<<uint(t.H-j) || !bytes.Equal(v, PosNode(t.Tag, j, i)) {
		return Bad
	}
	return Node{j, int(i)}
}

// ProjectAuth projects the authentication path of a signature made at idx: level j is <<j, sibling>>
// when its bytes are the true sibling's, Zero when all zero, Bad otherwise.
func (t *Tree) ProjectAuth(idx uint32, auth []byte) []Node {
	out := make([]Node, 0, t.H)
	if t.Pos {
		for j := 0; j < t.H && 32*(j+1) <= len(auth); j++ {
			out = append(out, t.decodePos(auth[32*j:32*j+32]))
		}
		return out
	}
	for j := 0; j < t.H && 32*(j+1) <= len(auth); j++ {
		v := auth[32*j : 32*j+32]
		sib := int(idx>>uint(j)) ^ 1
		switch {
		case sib < len(t.Levels[j]) && bytes.Equal(v, t.Levels[j][sib]):
			out = append(out, Node{j, sib})
		case bytes.Equal(v, zero32[:]):
			out = append(out, Zero)
		default:
			out = append(out, Bad)
		}
	}
	return out
}

// SeamLeaf is the synthetic leaf used when the leaf seam is installed: cheap,
// distinct per (tag, index).
func SeamLeaf(tag uint64, idx uint32) []byte {
	var b [16]byte
	binary.BigEndian.PutUint64(b[:8], tag)
	binary.BigEndian.PutUint32(b[8:12], idx)
	copy(b[12:], "leaf")
	h := sha256.Sum256(b[:])
	return h[:]
}

// Build computes all 2^h leaves and all inner nodes. leafFn(i) yields leaf i.
func Build(h int, hf xmss.HashFunction, pubSeed []byte, leafFn func(i uint32) []byte) *Tree {
	return build(h, hf, pubSeed, leafFn, false)
}

// BuildLight is Build without the reverse index.
func BuildLight(h int, hf xmss.HashFunction, pubSeed []byte, leafFn func(i uint32) []byte) *Tree {
	return build(h, hf, pubSeed, leafFn, true)
}

func build(h int, hf xmss.HashFunction, pubSeed []byte, leafFn func(i uint32) []byte, light bool) *Tree {
	n := 1 << uint(h)
	t := &Tree{H: h, Hf: hf, Light: light}
	if !light {
		t.index = make(map[[32]byte]Node, 2*n)
	}
	leaves := make([][]byte, n)
	var wg sync.WaitGroup
	workers := runtime.NumCPU()
	ch := make(chan int, n)
	for i := 0; i < n; i++ {
		ch <- i
	}
	close(ch)
	for w := 0; w < workers; w++ {
		wg.Add(1)
		go func() {
			defer wg.Done()
			for i := range ch {
				leaves[i] = leafFn(uint32(i))
			}
		}()
	}
	wg.Wait()
	t.Levels = append(t.Levels, leaves)
	for j := 0; j < h; j++ {
		prev := t.Levels[j]
		cur := make([][]byte, len(prev)/2)
		var wg2 sync.WaitGroup
		nw := runtime.NumCPU()
		for w := 0; w < nw; w++ {
			w := w
			wg2.Add(1)
			go func() {
				defer wg2.Done()
				for i := w; i < len(cur); i += nw {
					var addr [8]uint32
					addr[3] = 2
					addr[5] = uint32(j)
					addr[6] = uint32(i)
					in := append(append([]byte{}, prev[2*i]...), prev[2*i+1]...)
					out := make([]byte, 32)
					xmss.VerifHashH(hf, out, in, pubSeed, &addr)
					cur[i] = out
				}
			}()
		}
		wg2.Wait()
		t.Levels = append(t.Levels, cur)
	}
	for j, lv := range t.Levels {
		if light {
			break
		}
		for i, v := range lv {
			var k [32]byte
			copy(k[:], v)
			if _, dup := t.index[k]; !dup {
				t.index[k] = Node{j, i}
			}
		}
	}
	return t
}

// RealLeafFn returns the library's genLeafWOTS for (skSeed, pubSeed).
func RealLeafFn(hf xmss.HashFunction, h int, skSeed, pubSeed []byte) func(i uint32) []byte {
	return func(i uint32) []byte {
		leaf := make([]byte, 32)
		xmss.VerifGenLeaf(hf, leaf, skSeed, pubSeed, uint32(h), i)
		return leaf
	}
}

func (t *Tree) Root() []byte {
	if t.Pos {
		return PosNode(t.Tag, t.H, 0)
	}
	return t.Levels[t.H][0]
}

var zero32 [32]byte

func (t *Tree) Project(v []byte) Node {
	if t.Pos {
		return t.decodePos(v)
	}
	if len(v) != 32 || t.Light {
		return Bad
	}
	if bytes.Equal(v, zero32[:]) {
		return Zero
	}
	var k [32]byte
	copy(k[:], v)
	if n, ok := t.index[k]; ok {
		return n
	}
	return Bad
}

func (t *Tree) ProjectAll(v []byte) []Node {
	out := make([]Node, 0, len(v)/32)
	for o := 0; o+32 <= len(v); o += 32 {
		out = append(out, t.Project(v[o:o+32]))
	}
	return out
}

// TH is one treehash instance in projected form (field names = spec record fields).
type TH struct {
	H          int  `json:"h"`
	NextIdx    int  `json:"nextIdx"`
	StackUsage int  `json:"stackUsage"`
	Completed  int  `json:"completed"`
	Node       Node `json:"node"`
}

// State is a BDS state in projected form (field names = spec record fields).
type State struct {
	Stack       []Node `json:"stack"`
	StackOffset int    `json:"stackOffset"`
	StackLevels []int  `json:"stackLevels"`
	Auth        []Node `json:"auth"`
	Keep        []Node `json:"keep"`
	Retain      []Node `json:"retain"`
	TH          []TH   `json:"th"`
}

func (t *Tree) ProjectState(s *xmss.VerifState) State {
	st := State{
		Stack:       t.ProjectAll(s.Stack),
		StackOffset: int(s.StackOffset),
		Auth:        t.ProjectAll(s.Auth),
		Keep:        t.ProjectAll(s.Keep),
		Retain:      t.ProjectAll(s.Retain),
	}
	for _, l := range s.StackLevels {
		st.StackLevels = append(st.StackLevels, int(l))
	}
	for _, th := range s.TreeHash {
		st.TH = append(st.TH, TH{int(th.H), int(th.NextIdx), int(th.StackUsage), int(th.Completed), t.Project(th.Node)})
	}
	return st
}

// ZeroState is the projected form of a state whose slots were blanked (light trees).
func (t *Tree) ZeroState(s *xmss.VerifState) State {
	z := func(n int) []Node {
		o := make([]Node, n)
		for i := range o {
			o[i] = Zero
		}
		return o
	}
	st := State{Stack: z(len(s.Stack) / 32), Auth: z(len(s.Auth) / 32), Keep: z(len(s.Keep) / 32), Retain: z(len(s.Retain) / 32)}
	for range s.StackLevels {
		st.StackLevels = append(st.StackLevels, 0)
	}
	for range s.TreeHash {
		st.TH = append(st.TH, TH{Node: Zero})
	}
	return st
}

// RawEqual compares two snapshots byte for byte.
func RawEqual(a, b *xmss.VerifState) bool {
	if !bytes.Equal(a.SK, b.SK) || !bytes.Equal(a.Stack, b.Stack) || a.StackOffset != b.StackOffset ||
		!bytes.Equal(a.StackLevels, b.StackLevels) || !bytes.Equal(a.Auth, b.Auth) || !bytes.Equal(a.Keep, b.Keep) ||
		!bytes.Equal(a.Retain, b.Retain) || a.NextLeaf != b.NextLeaf || len(a.TreeHash) != len(b.TreeHash) ||
		a.Height != b.Height || a.HashFn != b.HashFn || a.Desc != b.Desc {
		return false
	}
	for i := range a.TreeHash {
		x, y := a.TreeHash[i], b.TreeHash[i]
		if x.H != y.H || x.NextIdx != y.NextIdx || x.StackUsage != y.StackUsage || x.Completed != y.Completed || !bytes.Equal(x.Node, y.Node) {
			return false
		}
	}
	return true
}
