module verifharness

go 1.18

require github.com/theQRL/go-qrllib v0.0.0

require golang.org/x/crypto v0.17.0

replace github.com/theQRL/go-qrllib => /repo
