module verifharness

go 1.18

require github.com/theQRL/go-qrllib v0.0.0

require golang.org/x/crypto v0.17.0

require github.com/gopherjs/gopherjs v1.18.0-beta1.0.20220817214357-b972ef3adc13 // indirect

replace github.com/theQRL/go-qrllib => /repo
