// Package oracle is the trusted hash base of the equational checks: the Go
// standard library's SHA-256 and golang.org/x/crypto's SHAKE, called directly
// (never through go-qrllib), and the bucketed table format the TLA+
// specifications read.
package oracle

import (
	"crypto/sha256"
	"fmt"

	"golang.org/x/crypto/sha3"
)

// Algorithms: the first three are the XMSS hash-function ids with 32 output bytes.
const (
	SHA256_32   = 0
	SHAKE128_32 = 1
	SHAKE256_32 = 2
	SHAKE256_96 = 3
	// Dilithium streams: alg = 100 + kind, output length is part of the row
	SHAKE128_N = 100
	SHAKE256_N = 101
)

func Hash(alg int, in []byte, outLen int) ([]byte, error) {
	switch alg {
	case SHA256_32:
		h := sha256.Sum256(in)
		return h[:], nil
	case SHAKE128_32:
		o := make([]byte, 32)
		sha3.ShakeSum128(o, in)
		return o, nil
	case SHAKE256_32:
		o := make([]byte, 32)
		sha3.ShakeSum256(o, in)
		return o, nil
	case SHAKE256_96:
		o := make([]byte, 96)
		sha3.ShakeSum256(o, in)
		return o, nil
	case SHAKE128_N:
		o := make([]byte, outLen)
		sha3.ShakeSum128(o, in)
		return o, nil
	case SHAKE256_N:
		o := make([]byte, outLen)
		sha3.ShakeSum256(o, in)
		return o, nil
	}
	return nil, fmt.Errorf("unknown algorithm %d", alg)
}

const Buckets = 16384

// Bucket is the index the TLA+ side computes for (alg, input): a polynomial checksum.
func Bucket(alg int, in []byte) int {
	h := alg % Buckets
	for _, b := range in {
		h = (h*31 + int(b)) % Buckets
	}
	return h
}

type Row struct {
	Alg int   `json:"alg"`
	In  []int `json:"in"`
	Out []int `json:"out"`
}

type Table struct {
	Buckets [][]Row `json:"buckets"`
	Rows    int     `json:"rows"`
	seen    map[string]bool
}

func NewTable() *Table {
	t := &Table{Buckets: make([][]Row, Buckets), seen: map[string]bool{}}
	for i := range t.Buckets {
		t.Buckets[i] = []Row{}
	}
	return t
}

func toInts(b []byte) []int {
	o := make([]int, len(b))
	for i, v := range b {
		o[i] = int(v)
	}
	return o
}

// Add records (alg, in) -> out unless already present.
func (t *Table) Add(alg int, in, out []byte) {
	k := fmt.Sprintf("%d:%x:%d", alg, in, len(out))
	if t.seen[k] {
		return
	}
	t.seen[k] = true
	b := Bucket(alg, in)
	t.Buckets[b] = append(t.Buckets[b], Row{alg, toInts(in), toInts(out)})
	t.Rows++
}
