#!/bin/sh
# Offline setup: build the Go harness against /repo (tag verif) and smoke-test TLC.
set -e
cd "$(dirname "$0")"
export GOFLAGS=-mod=mod GOPROXY=off GOSUMDB=off GOTOOLCHAIN=local
mkdir -p .build/bin evidence replays
cp /repo/go.sum harness/go.sum
(cd harness && for c in cmd/*; do go build -tags verif -o ../.build/bin/$(basename $c) ./$c; done)
java -cp /opt/veriftools/tla/tla2tools.jar:/opt/veriftools/tla/CommunityModules-deps.jar tlc2.TLC -h >/dev/null 2>&1 || true
echo "setup ok"
