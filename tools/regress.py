#!/usr/bin/env python3
"""Regression of the checks themselves: every kept seeded change is applied again (scratch worktree, VERIF_REPO)
and the check that is recorded as catching it must still report a violation.
usage: tools/regress.py [--streams 4] [--only C05,C13]     (needs the /tmp/mut worktrees and .outN directories)
Prints one line per change; exit 1 if a change that was caught is no longer caught."""
import json, glob, os, subprocess, sys, argparse, re
from concurrent.futures import ThreadPoolExecutor
ap = argparse.ArgumentParser(); ap.add_argument("--streams", type=int, default=4); ap.add_argument("--only", default="")
a = ap.parse_args()
COST = {"C11": 1, "C09": 1, "C10": 1, "C14": 2, "C05": 2, "C03": 2, "C13": 3, "C16": 4, "C12": 4, "C08": 4, "C07": 5, "C04": 6, "C06": 8, "C02": 8, "C15": 8, "C01": 9}
jobs = {}
for mp in sorted(glob.glob("/verif/seeded/*/meta.json")):
    m = json.load(open(mp))
    prop = m["property"]
    if a.only and prop not in a.only.split(","):
        continue
    caught = [k.split(":")[0] for k, v in m.get("checks", {}).items() if v.get("rc") == 1 and v.get("tier", "quick") == "quick"]
    if not caught:
        print("NEVER-CAUGHT %s" % os.path.basename(os.path.dirname(mp))); continue
    pick = prop if prop in caught else sorted(set(caught), key=lambda c: COST.get(c, 5))[0]
    demo = m["ran"][1]["cmd"] if len(m.get("ran", [])) > 1 else ""
    tags = ["--demotags", "verif"] if "-tags verif" in demo else []
    race = ["--race"] if "-race" in demo else []
    cmd = ["python3", "tools/seedcheck.py", prop, m["variant"], m["demo_package_dir"], "--round", str(m.get("round", 1)), "--checks", pick] + tags + race
    jobs.setdefault(prop, []).append((os.path.basename(os.path.dirname(mp)), pick, cmd))
props = sorted(jobs, key=lambda p: -sum(COST.get(j[1], 5) for j in jobs[p]))
streams = [[] for _ in range(a.streams)]
load = [0] * a.streams
for p in props:
    i = load.index(min(load)); streams[i].append(p); load[i] += sum(COST.get(j[1], 5) for j in jobs[p])
bad = []
def run_stream(ps):
    for p in ps:
        for name, pick, cmd in jobs[p]:
            r = subprocess.run(cmd, cwd="/verif", capture_output=True, text=True)
            m = re.search(r"check %s \(quick\): rc=(\d+)" % pick, r.stdout)
            rc = int(m.group(1)) if m else -1
            ok = rc == 1
            print("%s %-10s %s rc=%d" % ("ok  " if ok else "LOST", name, pick, rc), flush=True)
            if not ok:
                bad.append((name, pick, rc, r.stdout[-600:]))
with ThreadPoolExecutor(max_workers=a.streams) as ex:
    list(ex.map(run_stream, streams))
for b in bad:
    print("LOST", b)
sys.exit(1 if bad else 0)
