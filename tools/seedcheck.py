#!/usr/bin/env python3
"""Confirm a seeded change and run checks against it.
usage: tools/seedcheck.py <prop> <variant> <demo-pkg-dir> [--checks C01,C02] [--tier quick|thorough]
Reads /tmp/mut/<prop>.out/<variant>.diff and <variant>_demo_test.go.
1. in the scratch worktree /tmp/mut/<prop>: applies the diff, builds (with and without the tag), runs the
   existing suite (must pass), runs the demo (must fail); reverts and runs the demo again (must pass)
2. applies the diff to /repo, runs ./check for the listed properties, reverts /repo
3. stores /verif/seeded/<prop>-<variant>/{patch.diff,demo_test.go,meta.json}
"""
import sys, os, subprocess, json, shutil, time, argparse
ap = argparse.ArgumentParser()
ap.add_argument("prop"); ap.add_argument("variant"); ap.add_argument("pkg")
ap.add_argument("--checks"); ap.add_argument("--tier", default="quick"); ap.add_argument("--race", action="store_true")
ap.add_argument("--needs", default="")
ap.add_argument("--round", type=int, default=1)
ap.add_argument("--demotags", default="")
a = ap.parse_args()
wt = "/tmp/mut/%s" % a.prop
out = "/tmp/mut/%s.out%s" % (a.prop, "" if a.round == 1 else str(a.round))
diff = os.path.join(out, a.variant + ".diff")
demo = os.path.join(out, a.variant + "_demo_test.go")
env = dict(os.environ, GOFLAGS="-mod=mod", GOPROXY="off", GOSUMDB="off", GOTOOLCHAIN="local")
def sh(cmd, cwd=None, timeout=1800):
    p = subprocess.run(cmd, shell=True, cwd=cwd, env=env, capture_output=True, text=True, timeout=timeout)
    return p.returncode, (p.stdout + p.stderr)
def clean():
    sh("git checkout -- . && git clean -fdq", wt)
meta = {"property": a.prop, "variant": a.variant, "round": a.round, "demo_package_dir": a.pkg, "ran": []}
clean()
rc, o = sh("git apply --check %s && git apply %s" % (diff, diff), wt)
if rc: print("APPLY FAILED", o); sys.exit(2)
rc1, o1 = sh("go build ./... && go build -tags verif ./...", wt)
rc2, o2 = sh("go test -vet=off -count=1 ./... 2>&1 | grep -v 'no test files'", wt)
suite_ok = rc1 == 0 and "FAIL" not in o2 and "ok" in o2
meta["ran"].append({"cmd": "go build ./... && go build -tags verif ./... && go test -vet=off -count=1 ./...", "with_change": "pass" if suite_ok else "FAIL"})
shutil.copy(demo, os.path.join(wt, a.pkg, "zz_demo_test.go"))
race = ("-race " if a.race else "") + ("-tags %s " % a.demotags if a.demotags else "")
rc3, o3 = sh("go test %s-vet=off -count=1 -run Demo ./%s/" % (race, a.pkg), wt, 1200)
demo_fails = rc3 != 0
clean()
shutil.copy(demo, os.path.join(wt, a.pkg, "zz_demo_test.go"))
rc4, o4 = sh("go test %s-vet=off -count=1 -run Demo ./%s/" % (race, a.pkg), wt, 1200)
demo_passes_clean = rc4 == 0
clean()
meta["ran"].append({"cmd": "go test %s-run Demo ./%s/" % (race, a.pkg), "with_change": "fails" if demo_fails else "PASSES(!)", "without_change": "passes" if demo_passes_clean else "FAILS(!)"})
print("suite with change:", "pass" if suite_ok else "FAIL\n" + o1[-500:] + o2[-800:])
print("demo with change :", "fails (good)" if demo_fails else "passes (BAD)")
print("demo w/o change  :", "passes (good)" if demo_passes_clean else "fails (BAD)\n" + o4[-800:])
confirmed = suite_ok and demo_fails and demo_passes_clean
meta["confirmed"] = confirmed
results = {}
if confirmed and a.checks:
    # the change is applied in the scratch worktree only; the checks are pointed at it with VERIF_REPO
    rc, o = sh("git apply %s" % diff, wt)
    if rc: print("apply failed", o); sys.exit(2)
    try:
        for c in a.checks.split(","):
            t0 = time.time()
            e2 = dict(os.environ, VERIF_REPO=wt)
            p = subprocess.run(["./check", c, "--tier", a.tier], cwd="/verif", capture_output=True, text=True, timeout=7200, env=e2)
            line = [l for l in p.stdout.splitlines() if l.startswith("VIOLATION") or l.startswith("KNOWN")]
            why = [l.strip() for l in p.stderr.splitlines() if l.startswith("  ") or "DRIFT" in l or "INFRA" in l]
            results[c] = {"tier": a.tier, "rc": p.returncode, "lines": line, "why": why[:4], "wall_s": round(time.time() - t0)}
            print("check %s (%s): rc=%d %s %s" % (c, a.tier, p.returncode, line, why[:3]))
    finally:
        clean()
meta["checks"] = results
meta["needs_to_manifest"] = a.needs
d = "/verif/seeded/%s-%s%s" % (a.prop, "" if a.round == 1 else "R%d" % a.round, a.variant)
os.makedirs(d, exist_ok=True)
# merge with earlier runs of other tiers
mp = os.path.join(d, "meta.json")
if os.path.exists(mp):
    old = json.load(open(mp))
    for k, v in old.get("checks", {}).items():
        meta["checks"].setdefault(k + ":" + v.get("tier", ""), v) if k in meta["checks"] and meta["checks"][k].get("tier") != v.get("tier") else meta["checks"].setdefault(k, v)
    if not a.needs: meta["needs_to_manifest"] = old.get("needs_to_manifest", "")
if confirmed:
    shutil.copy(diff, os.path.join(d, "patch.diff"))
    shutil.copy(demo, os.path.join(d, "demo_test.go"))
    json.dump(meta, open(mp, "w"), indent=1)
print("confirmed:", confirmed)
