#!/bin/sh
# run the named checks of one tier on the current tree: tools/runsome.sh <tier> C10 C11 ..
tier=$1; shift
cd "$(dirname "$0")/.."
mkdir -p /tmp/scratch
for p in "$@"; do
  s=$(date +%s); out=$(./check $p --tier $tier 2>/tmp/scratch/runsome.$p.err); rc=$?; e=$(date +%s)
  echo "$p rc=$rc $((e-s))s $(echo "$out" | grep -E 'VIOLATION|KNOWN' | head -2) $(grep -aE 'MODEL-DRIFT|INFRA' /tmp/scratch/runsome.$p.err | head -1 | cut -c1-160)"
done
