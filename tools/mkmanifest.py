#!/usr/bin/env python3
"""Regenerates /verif/MANIFEST.json from the table below (single source of truth for the interface)."""
import json, os, subprocess
V = os.path.dirname(os.path.dirname(os.path.abspath(__file__)))

def repo_hook_commits():
    try:
        out = subprocess.run(["git", "-C", "/repo", "log", "--format=%H %s"], capture_output=True, text=True).stdout
        return [l.split()[0] for l in out.splitlines() if " verif hooks:" in " " + l.split(" ", 1)[1] or l.split(" ", 1)[1].startswith("verif hooks")]
    except Exception:
        return []

CHECKS = {
 "C01": dict(
   level="model_checking", design_ref="6 (C01), 3.2, 3.3",
   text="TLC checks exhaustively, on a line-by-line TLA+ transcription of the BDS traversal over a symbolic Merkle tree (spec/Bds.tla, XmssKey.tla), that after every history of Sign/SetIndex calls the key holds the true authentication path of its index (all histories for h=4,6; jump classes h=8; all indices h<=14). The model is bound to the code by trace validation: real keys are walked through every index (real hashing h<=10, synthetic leaves h<=14) and every single forward jump (h=4,6), every call is logged with the signature's projected authentication path, xmss.Verify's answers and the full projected BDS state, and TLC explains each event with the spec's operators applied to the previous logged state.",
   note="Trusted: the projection of 32-byte values to tree nodes uses a full tree built with the library's own genLeafWOTS/hashH (their correctness is C06's business); three kinds of trees are walked: real (h <= 10, Verify consulted), synthetic leaves (h <= 22) and positional trees in which nothing is hashed (h = 24 to the end of the key's life; 26..30 key generation, the index carries, a 2^24-round jump), see DESIGN 11.7; hash functions are sampled per height.",
   technique="explicit TLA+ spec + TLC exhaustive model checking; trace validation of recorded executions of the real code against the spec (TraceXmssKey.tla)"),
 "C02": dict(
   level="model_checking", design_ref="6 (C02), 3.3",
   text="TLC checks on XmssKey.tla, for every history over {Sign, SetIndex(j)} with j ranging over the whole legal range, its borders and 2^31-1 (h=4,6 exhaustive), that the key refines the counter automaton of the property (PROPERTY CounterSpec), refusals preserve state, exhaustion is final and emitted indices strictly increase. Real keys are driven through exhaustive walks, all jumps and seeded random call sequences around the guard borders (0, idx-1, idx, 2^h-1, 2^h, 2^31, 2^32-1) to exhaustion and beyond; each logged call (result class, index, embedded signature index, byte-exact before/after snapshot comparison, digest of all getters) is validated by TLC against the automaton.",
   note="Histories on the real code are exhaustive only for single calls from every index at h=4,6 and otherwise seeded samples; taller keys (h = 18, 20, 26; thorough 24, 30) have synthetic or positional trees; keys whose descriptor names an unimplemented hash function are walked as counters only. The counter abstraction is proved inductive for every tree size with Apalache (XmssCounter.tla).",
   technique="explicit TLA+ spec + TLC (refinement of a counter automaton, action properties); trace validation of the real code's call histories"),
 "C08": dict(
   level="model_checking", design_ref="6 (C08), 3.4",
   text="TLC checks on Wallet.tla (two objects of one seed; Sign, SetIndex in one or several jumps, Crash, Rebuild from seed / extended seed / mnemonic through the concrete descriptor codec) that the state of any live object equals the canonical state after idx signatures of a fresh key, for every interleaving (h=4 all jumps, h=6 jump classes); SignAdvance and JumpAdvance are separate transcriptions of the two copies of the traversal step, so their agreement is a checked fact. On the real code, for every crash index the object is rebuilt three ways (seed + one jump, extended seed + two jumps, mnemonic + signatures + jump) and must reproduce the original's signatures byte for byte (digest) and its live state; TLC-generated wallet behaviours (TLC -simulate on SimWallet.tla) are executed on real objects; every event is validated by TraceXmssKey.tla, which keeps per-seed tables index -> live state and (index, message) -> signature digest.",
   note="Signature equality after a crash is compared for a window of indices in the quick tier (whole remaining life at h=6/8 seam); heights 18 and 24 (thorough 20, 28) are rebuilt with synthetic / positional trees around index 2^16, one object from the extended seed.",
   technique="explicit TLA+ spec + TLC exhaustive model checking; trace validation with per-seed ghost tables; TLC-generated behaviours replayed into the real code"),
 "C09": dict(
   level="model_checking", design_ref="6 (C09), 3.4-3.6",
   text="Design: TLC checks that the descriptor codec round-trips for every value of its four nibbles (MCAddress, 65536 states), that a wallet rebuilt through any export kind gets the original parameters (Wallet.tla, DescriptorRoundTrip / RebuildPreservesIdentity) and that the mnemonic codec is a bijection (MCMnemonic). Conformance: real XMSS keys (h=4,6(,8) x 3 hash functions, from seeds and from fresh randomness) and Dilithium keys are re-created from every secret they export through the matching constructor; TLC (TraceRecover.tla) requires equal public key, address, secret key, seed and signatures (index 0 and after a jump; detached and sealed) and the specified layout of extended seed, mnemonic and hex seed; for all heights 0..30 the export/parse path is exercised without building a tree.",
   note="Seeds are sampled (they only flow into SHAKE); equality is compared on SHA-256 digests; real keys are built for h <= 8, h = 12 (thorough 10..16) with synthetic leaves; the descriptor path covers every height.",
   technique="explicit TLA+ specs (Descriptor, Mnemonic, Wallet) + TLC; trace validation of real export/re-create runs (TraceRecover.tla)"),
 "C10": dict(
   level="model_checking", design_ref="6 (C10), 3.6",
   text="Mnemonic.tla transcribes binToMnemonic's nibble cursor and mnemonicToBin's accumulator machine and strings.Split tokenisation on code points. TLC proves on it: enc/dec round trips and injectivity for every 12-bit value at every word position of 2-, 4-, 32- and 34-word phrases over several backgrounds, and for all 2^24 values of one 3-byte block (thorough). Conformance: the library's own word list is dumped and checked (4096 distinct non-empty [a-z]+ words); the real encoders/decoders are run on Latin-square phrases covering every (position, value) pair, on extreme and random seeds, and on ~60 classes of malformed phrases (unknown / near / upper-case words, tabs, newlines, empty tokens, wrong counts, other size); TLC decides for each logged call, from the phrase's code points, the value or refusal the specification prescribes (TraceMnemonic.tla); thorough adds the complete 2^24-entry table of the length-generic codec in both directions.",
   note="The text of refusal messages is not compared (TLC strings are opaque).",
   technique="explicit TLA+ spec of the codec + TLC exhaustive enumeration; trace validation of the real codec (complete function tables in the thorough tier)"),
 "C11": dict(
   level="model_checking", design_ref="6 (C11), 3.5",
   text="Descriptor.tla / Address.tla define the descriptor codec, both address derivations, both validators and the legacy address/validator on bytes. TLC proves (MCAddress, all 65536 leading byte pairs): the two address spaces are disjoint, decode(encode(d)) = d for all field values, derived XMSS addresses are XMSS-valid and Dilithium-invalid, Dilithium addresses are Dilithium-valid and XMSS-invalid for every value of their second byte. Conformance: complete tables of the real parser/printer/validators over all 65536 prefixes x 3 third bytes and all 16x16x32x16 constructor inputs; address derivations for real keys and random public keys with SHAKE-256/SHA-256 digests computed by the harness with the standard library; legacy validity on valid addresses, all their 312 bit flips and random strings; each event judged by TraceAddress.tla.",
   note="Public keys are a seeded sample (they only flow into the hash).",
   technique="explicit TLA+ spec + TLC exhaustive enumeration of the descriptor space; trace validation with digests as recorded oracle values"),
 "C04": dict(
   level="model_checking", design_ref="6 (C04), 3.7, 7 (F1)",
   text="XmssVerify.tla has (1) the concrete guard cascade of VerifyWithCustomWOTSParamW with WOTS parameter derivation and exact refusal texts, checked by TLC over w x length classes x descriptor nibbles (CascadeSound: a call reaches the cryptographic check iff signature type, length-derived height, descriptor height and hash function are consistent and supported), and (2) a symbolic signer/verifier over a free term algebra, for which TLC checks AcceptIffUnmodified over all single and double mutations of every component at every index, and that foreign signatures are rejected. Conformance: on genuine signatures of real keys (h=4 quick; 4,6,8 thorough; 3 hash functions; first/last/post-jump indices) every single-bit flip of signature, public key and message, all 256 values of both descriptor bytes, length changes, spliced foreign components, other index fields, and arbitrary-content triples of every length class for w in {4,16,256} are verified; TLC (TraceVerify.tla) derives from (length, w, descriptor bytes, what was touched) whether the call may be accepted and flags any other acceptance or any rejection of an unmodified triple. Finding F1 (unsupported hash id accepted) was found this way and repaired by a fix: commit.",
   note="Rejection of flipped bits in hashed material rests on collision resistance; the full biconditional against an independent hashing verifier exists only modulo the recorded hash oracle (C06).",
   technique="explicit TLA+ spec (concrete cascade + symbolic scheme) + TLC; trace validation of all single-bit flips and input classes on the real verifier"),
 "C14": dict(
   level="model_checking", design_ref="6 (C14), 3.8",
   text="EntryPoints.tla gives, for each of the 12 entry points that take untrusted bytes, the outcome specified for an abstract input (value, or the exact refusal text: XMSS cascade, address-format refusal, descriptor size, the three mnemonic refusals including the formatted word count). TLC enumerates the abstract input classes (GenClasses.tla, spec -> code), the driver concretises each with random and structured content and adds the whole descriptor space for the address functions, Dilithium hint-section corruptions and arbitrary mnemonic byte strings; every call runs under recover with a deadline and a before/after comparison of all input buffers. TLC (TraceEntry.tla) flags any outcome that is not a value or a string refusal, any refusal by an entry point specified never to refuse (Dilithium Verify/Open, validators), any modified buffer; differences in value-vs-refusal or refusal text are reported as drift.",
   note="Memory safety is observed through Go bounds checks (runtime.Error on the executed input); content inside a class is sampled; nil pointers are not 'bytes' and are out of scope.",
   technique="explicit TLA+ spec of allowed outcomes + TLC-enumerated input classes replayed into the real code + trace validation"),
 "C16": dict(
   level="model_checking", design_ref="6 (C16), 3.8, 7 (F2)",
   text="Wrappers.tla models the string wrappers as Core o Sized o HexDecode o Strip0x on the bytes of the argument strings; MCWrappers checks the hex codec facts for every byte value and every non-hex character. Conformance: the six pure wrappers are called on real keys/signatures ({valid, wrong message, flipped signature}) in every rendering {lower, upper} x {bare, 0x} and 13 malformed renderings per argument; each event carries what the harness fed to the core function and both results; TLC (TraceWrappers.tla) decodes the argument strings itself, checks the harness fed the core exactly that, and requires wrapper = core for exact-length hex and false/\"\" for non-hex. Finding F2 (xmssjs wrappers did not strip 0x) was found this way and repaired by a fix: commit.",
   note="The js.Object-based constructors/methods need a JavaScript runtime and are not covered; addresses are compared as bytes (optional 0x removed).",
   technique="explicit TLA+ spec of the wrapper composition + TLC; trace validation of wrapper-vs-core calls"),
 "C03": dict(
   level="model_checking", design_ref="6 (C03), 3.9, 3.10",
   text="DilithiumSign.tla is the rejection loop of cryptoSignSignature as a program-counter machine (four rejecting exits in code order, nonce incremented once per iteration, fresh nonce blocks); TLC checks that whatever it accepts satisfies what the verifier needs (AcceptedVerifies), relying on the coefficient-wise hint lemma UseHint(MakeHint(w0-cs2+ct0, w1), w-cs2+ct0) = w1 under the two low-bit bounds, which TLC checks on DilithiumMath.tla for boundary-focused operand sets at the real modulus. Conformance: seeded keys x messages (empty, 1, 7, 135..137, 4096, random lengths, 1 MiB) are signed and sealed with a hook logging every loop iteration (exit, nonce, exact norms); TLC (TraceDilithiumSign.tla) requires Verify true for the message and false for another message/key, Open(Seal(m)) = m, Extract* equalities, and (as drift) that each run is a behaviour of the machine for the logged norms.",
   note="Inputs are sampled: the data-dependent loop path cannot be enumerated; the rare exits (ct0, hint count) may be unseen in a quick run and are reported in the evidence.",
   technique="explicit TLA+ spec of the signing loop + TLC; trace validation of hooked signing runs of the real code"),
 "C05": dict(
   level="model_checking", design_ref="6 (C05), 3.9",
   text="HintCodec.tla is the concrete encoder/decoder of the hint section with parameters as constants; TLC checks exhaustively at (K,OMEGA,N)=(3,4,6), over all 6^7 byte strings and all hint vectors: Decode accepts iff HintCanonical, accepted strings re-encode to themselves (non-malleable), Decode(Encode(h)) = h, every read stays inside the section. Conformance at the real parameters: genuine signatures under all signature-bit flips (quick: c, hint section, sampled z bits), public-key bit flips, wrong message, other key; hint re-encodings that denote the SAME vector non-canonically (swapped indices, non-zero padding, count tricks) and other corruptions; and signatures produced with the secret key by a signer living in the hook file that skips the z-norm test (everything consistent except ||z|| >= GAMMA1-BETA). TLC (TraceDilithiumVerify.tla) computes canonicity from the raw hint bytes itself and allows Verify = true only for the unmodified triple with canonical hints and in-range z; Open must agree with Verify.",
   note="Rejection of flipped z/c/pk bits rests on SHAKE-256 collision freeness; signatures with only a skipped low-bits test have no specified verdict (recorded only).",
   technique="explicit TLA+ spec of the hint codec (exhaustive at small parameters) + trace validation of the real verifier on mutated and specially signed inputs"),
 "C15": dict(
   level="model_checking", design_ref="6 (C15), 3.12",
   text="Concurrent.tla models N goroutines issuing two-step (call/return) stateless calls, decodes that need the word lookup table, and Sign on per-goroutine private XMSS keys; a constant selects how the lookup table the code's FIXME asks for is built (none = today's per-call table, locked, racy). TLC checks HistoryFree (every return equals the sequential result) and independence of the private keys for every interleaving of 3 goroutines for none/locked, and - as a non-vacuity control executed on every run - finds the stale-read interleaving for racy. Conformance: a seeded pool of 74 distinct calls (XMSS/Dilithium verify, open, shared-key Dilithium Sign/Seal, address derivation/validation, mnemonic enc/dec, descriptors, key generation) is first run alone in one process (oracle), then in a FRESH process built with -race on 2..64 goroutines under GOMAXPROCS 1..16: a stampede phase releases all goroutines into the same call at once (first uses coincide), then seeded random mixes with per-goroutine private XMSS key scripts; TLC (TraceConcurrent.tla) requires per-goroutine call/return alternation, every result equal to the oracle, strictly increasing private-key indices, and no race report (race reports are appended to the trace as events).",
   note="Interleavings of the real code are sampled; the race detector is happens-before based but only remembers recent accesses, which is why first uses are made to coincide; events are collected in goroutine-local slices because json/fmt go through sync.Pool (a synchronisation point that hides races).",
   technique="explicit TLA+ spec + TLC exhaustive interleavings (with a seeded-bug control); trace validation of race-detector-instrumented concurrent runs against a sequential oracle"),
 "C12": dict(
   level="model_checking", design_ref="6 (C12), 3.10",
   text="DilithiumMath.tla holds the mathematical definitions (centred mod, Power2Round, Decompose with the q-1 wrap, MakeHint as [HighBits differs], UseHint, centred norm) and transcriptions of the Go bit tricks. Design: TLC shows trick = definition for all residues (thorough: every a in [0,q); quick: neighbourhoods of every breakpoint plus a stride), makeHint on the whole hint domain, reduce32 congruence and range, and the hint lemma; Apalache proves montgomeryReduce correct on its whole 2^55 operand range (Montgomery.tla, 3 s). Conformance: the COMPLETE input/output tables of the real decompose, power2Round, useHint, cAddQ, makeHint, polyChkNorm and reduce32 (all 2^32-2^22 operands) are computed through the aliases, compressed losslessly into affine segments and decided exactly by TLC (TraceDilMath.tla: two piecewise-affine functions agree on an interval iff they agree at its ends and at every breakpoint of either); montgomeryReduce on domain ends, multiples of 2^32 and q, zeta x coefficient products (20-bit limbs, 8-bit-limb MulMod in TLC); invntt(ntt(a) o ntt(b)) against the negacyclic product on extreme/structured/random polynomials; the zetas table against 2^32 * 1753^brv(k).",
   note="Montgomery: proved for the transcription, sampled on the code. NTT: structured samples plus zetas table, not all polynomials. polyChkNorm is compared with the centred norm on reduce32's output range (what its callers pass).",
   technique="explicit TLA+ definitions + TLC exhaustive over residues, Apalache for the 64-bit reduction; complete function tables of the real code validated as traces"),
 "C13": dict(
   level="model_checking", design_ref="6 (C13), 3.10",
   text="DilithiumPack.tla states bit packing once (value i occupies bits [i*w,(i+1)*w) of a little-endian stream); each library packer is PackBits(width, offset - c). Design: TLC checks unpack(pack(v)) = v and pack(unpack(b)) = b for every lane of an 8-value group over all values (thorough: every 7th of the 2^20 z values per lane) with extreme neighbours, and the HintCodec round trips. Conformance through the aliases: per packer, extremes and one-hot values in every lane over four backgrounds, every coefficient position with both extremes, random polynomials, arbitrary byte strings decoded and re-encoded; hint vectors of weights 0,1,2,74,75,76,80 in four shapes through packSig/unpackSig (heavier than OMEGA must not be accepted); genuine, z-randomised and hint-mutated signatures through unpackSig and packSig again; public/secret key layouts; every event recomputed by TLC (TraceDilPack.tla).",
   note="Positions are covered by loop uniformity plus every position with both extremes; whole-signature re-encoding compared on digests.",
   technique="explicit TLA+ spec of the generic bit packer and hint codec + TLC; trace validation of the real packers/unpackers"),
 "C06": dict(
   level="model_checking", design_ref="6 (C06), 3.11, 2(d)",
   text="XmssEq.tla is QRL-XMSS (n=32, w=16) as equations over a hash oracle with a FULL Merkle tree and no traversal state: seed expansion split, coreHash layout toByte(type,32)||key||in, PRF/F/H with keyAndMask 0/1/2 and XOR masks, big-endian address words, OTS seed and WOTS secret derivation, chains, L-tree with odd-node lift, tree nodes, public key, R, message hash key R||root||toByte(idx,32), base-w digits and checksum, signature layout. Conformance: a build-tagged hook records every coreHash call of key generation and signing; the harness audits every row against crypto/sha256 / x/crypto/sha3 called directly and hands the table to TLC (HashOracle.tla; a row the table lacks is computed by the same standard-library primitive in a helper process and counted). TLC recomputes from (seed, height, hash function) the leaves listed as complete, the whole tree above the leaves, the public key and the signatures at seeded indices, byte for byte against what the API returned (quick: h=4, one hash function rotating with the seed, 2 complete leaves, 2 signatures; thorough: 3 hash functions, every leaf and index at h=4, sampled leaves at h=6); also Verify == VerifyWithCustomWOTSParamW(16) and determinism of a second construction.",
   note="Hash primitives are trusted (the Go packages the library itself uses, called directly). Leaves not listed as complete enter the tree equations as the library computed them.",
   technique="explicit TLA+ specification of the scheme evaluated by TLC over recorded, audited hash calls of the real code (equational trace validation)"),
 "C07": dict(
   level="model_checking", design_ref="6 (C07), 3.10, 2(d), 11.3",
   text="DilithiumEq.tla is a specification-level implementation of Dilithium (round 3.1, level 5) in TLA+: SHAKE is an oracle (the Go standard library in a helper process), everything else is plain arithmetic modulo q evaluated by TLC: seed expansion, the four samplers as functions of byte streams, the matrix sampled in the NTT domain with NTT defined by evaluation at the roots of X^256+1 (forward and inverse butterfly networks in plain arithmetic are proved equal to it on all 256 unit vectors by TLC), Power2Round, Decompose, MakeHint, sparse products, bit packing and the hint codec. Conformance is COMPLETE per sampled input: KeyGen_spec(seed) must equal the library's public and secret key byte for byte; Sign_spec(sk, message) is run iteration by iteration (y, w = A y, w1, c~ = H(mu || pack(w1)), c, z, the three exact norms, all hints) and every iteration must leave through the exit the library logged, the accepted one must give exactly the library's signature bytes (quick: 2 keys, 14 signatures over message lengths around the SHAKE rate and the signature size; thorough: 5 keys, 100 signatures). In addition 1500 (thorough 20000) signatures are checked on the loop's scalars only (every exit decided from exact norms; tests met with equality are sought and counted), signing again in other call orders and from a second object gives identical bytes, and the six samplers are run on crafted boundary streams (t = q-1, q, q+1, top bit, nibbles 14/15).",
   note="SHAKE-128/256 are trusted (golang.org/x/crypto/sha3 called directly by cmd/hashtool). Seeds and messages are sampled.",
   technique="explicit TLA+ specification of the whole scheme evaluated by TLC with the hash as an oracle: recorded keys, signatures and loop iterations of the real code must equal KeyGen_spec / Sign_spec byte for byte"),
}

NOT_YET = {
}

def main():
    m = {
      "version": 1,
      "setup_cmd": "./setup.sh",
      "hooks": {
        "guard": "verif",
        "enable": "go build -tags verif (the harness in /verif/harness is built with -tags verif against /repo via a replace directive)",
        "baseline_off_cmd": "cd /repo && go test -mod=mod -json -vet=off -count=1 -timeout 25m ./...",
        "source_commits": repo_hook_commits(),
        "add_only": True,
      },
      "engines": [
        {"name": "tlc", "path": "/opt/veriftools/tla/tla2tools.jar", "serves_properties": sorted(CHECKS), "kind_free_text": "TLC 1.8.0 explicit-state model checker, CommunityModules (Json, IOUtils, SequencesExt)"},
        {"name": "apalache", "path": "/opt/veriftools/apalache", "serves_properties": ["C02", "C12"], "kind_free_text": "Apalache 0.58 symbolic model checker: inductive invariant of the XMSS index counter for every tree size (XmssCounter.tla), Montgomery and reduce32 over their whole operand ranges (Montgomery.tla, Reduce32.tla), each with a control property that must be refuted"},
        {"name": "go-harness", "path": "/verif/harness", "serves_properties": sorted(CHECKS), "kind_free_text": "Go drivers that execute the real library (build tag verif) and record ndjson traces / replay TLC-generated behaviours"},
      ],
      "checks": [],
      "notes": "All verdicts are TLA+ definitions evaluated by TLC over data recorded from (or replayed into) the real code; see DESIGN.md.",
      "not_applicable": [],
    }
    for pid in sorted(CHECKS):
        c = CHECKS[pid]
        m["checks"].append({
          "property_id": pid,
          "quick_cmd": "./check %s --tier quick" % pid,
          "thorough_cmd": "./check %s --tier thorough" % pid,
          "evidence_file": "/verif/evidence/%s.json" % pid,
          "replay_cmd_template": "./check %s --replay {path}" % pid,
          "engine": "tlc",
          "level_claimed": {"category": c["level"], "text": c["text"], "design_ref": c["design_ref"]},
          "level_note": c["note"],
          "technique": c["technique"],
        })
    props = [json.loads(l)["id"] for l in open(os.path.join(V, "properties.jsonl"))]
    for pid in props:
        if pid not in CHECKS:
            m["not_applicable"].append({"property_id": pid, "reason": NOT_YET.get(pid, "check not built yet (work in progress, see DESIGN.md section 10 for the build order)")})
    with open(os.path.join(V, "MANIFEST.json"), "w") as f:
        json.dump(m, f, indent=1)
        f.write("\n")

main()
