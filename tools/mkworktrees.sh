#!/bin/sh
# Recreate the scratch worktrees and input directories that tools/seedcheck.py and tools/regress.py use, from
# /verif/seeded (nothing under /tmp is needed by the checks registered in MANIFEST.json; this is for re-running the
# seeded changes).  Remove them again with:  tools/mkworktrees.sh --remove
set -e
if [ "$1" = "--remove" ]; then
  for p in C01 C02 C03 C04 C05 C06 C07 C08 C09 C10 C11 C12 C13 C14 C15 C16; do
    git -C /repo worktree remove --force /tmp/mut/$p 2>/dev/null || true
  done
  git -C /repo worktree prune
  rm -rf /tmp/mut
  exit 0
fi
mkdir -p /tmp/mut
for p in C01 C02 C03 C04 C05 C06 C07 C08 C09 C10 C11 C12 C13 C14 C15 C16; do
  [ -d /tmp/mut/$p ] || git -C /repo worktree add --detach /tmp/mut/$p HEAD >/dev/null
done
for d in /verif/seeded/C*/; do
  n=$(basename "$d")                       # C05-R3B | C05-A
  prop=${n%%-*}; rest=${n#*-}
  case "$rest" in R*) round=$(echo "$rest" | sed 's/^R\([0-9]*\).*/\1/'); var=$(echo "$rest" | sed 's/^R[0-9]*//');; *) round=1; var=$rest;; esac
  out=/tmp/mut/$prop.out$([ "$round" = 1 ] || echo "$round")
  mkdir -p "$out"
  cp "$d/patch.diff" "$out/$var.diff"
  cp "$d/demo_test.go" "$out/${var}_demo_test.go"
done
echo "worktrees and inputs ready under /tmp/mut"
