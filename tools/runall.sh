#!/bin/sh
# run every check of one tier on the current tree; prints one line per property
tier=${1:-quick}
cd "$(dirname "$0")/.."
mkdir -p /tmp/scratch
for p in C01 C02 C03 C04 C05 C06 C07 C08 C09 C10 C11 C12 C13 C14 C15 C16; do
  s=$(date +%s); out=$(./check $p --tier $tier 2>/tmp/scratch/runall.$p.err); rc=$?; e=$(date +%s)
  echo "$p rc=$rc $((e-s))s $(echo "$out" | grep -E 'VIOLATION|KNOWN' | head -2) $(grep -aE 'MODEL-DRIFT|INFRA' /tmp/scratch/runall.$p.err | head -1 | cut -c1-160)"
done
