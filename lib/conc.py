"""C15: stateless operations are safe to run concurrently and history-free."""
import os, time, json
from common import *
import kit

def check_C15(tier):
    t0 = time.time()
    runs = [("MCConcurrent", "Concurrent_none", 8), ("MCConcurrent", "Concurrent_locked", 8)]
    design = kit.run_design(runs)
    # non-vacuity control: the invariant must fail for the racy cache
    r = tlc("MCConcurrent", "Concurrent_racy", workers=4)
    if r.ok or r.violated != "HistoryFree":
        raise Infra("control failed: TLC did not find the stale read for CACHE = racy")
    exe = build("concdrive", race=True)
    plans = [(2, 1, 30), (4, 2, 30), (16, 16, 25)] if tier == "quick" else \
            [(2, 1, 60), (4, 2, 60), (16, 16, 60), (64, 16, 30), (16, 4, 60), (64, 2, 20)]
    verdicts = []
    races = 0
    calls = 0
    for i, (ng, gmp, per) in enumerate(plans):
        label = "C15-g%d-p%d" % (ng, gmp)
        sc = scratch()
        tr = os.path.join(sc, label + ".ndjson")
        stats = os.path.join(sc, label + ".stats.json")
        env = dict(os.environ, GOMAXPROCS=str(gmp), GORACE="halt_on_error=0 exitcode=66")
        mat = os.path.join(sc, label + ".material.json")
        tra = tr + ".seq"
        common_args = ["-seed", str(seed() * 10 + i), "-goroutines", str(ng), "-per", str(per), "-material", mat]
        # the oracle in its own process; the concurrent phase in a FRESH process, so that the
        # goroutines are the first callers (lazily initialised shared state is not pre-warmed)
        p0 = run([exe, "-phase", "seq", "-out", tra, "-stats", stats + ".seq"] + common_args, env=env, timeout=1500, ok_codes=(0, 66))
        # "alone" must not depend on what ran before: the same calls in reverse and in shuffled order, each in
        # its own process; all sequential results of one call must agree
        extra_seq = []
        leads = ["lead:xverify-w%d" % w for w in (17, 31, 5, 257, 4, 256)] + ["lead:xverify-path-2", "lead:desc-bytes-17", "lead:mn-unknown-0", "lead:misc-sha256-16"]
        for oi, order in enumerate((["reverse", "shuffle"] + leads) if i == 0 or tier == "thorough" else ["reverse"]):
            px = run([exe, "-phase", "seq", "-order", order, "-out", tra + "." + order.replace(":", "_"), "-stats", stats + ".seq." + order.replace(":", "_")] + common_args,
                     env=env, timeout=1500, ok_codes=(0, 66))
            extra_seq.append(tra + "." + order.replace(":", "_"))
            p0.stderr += px.stderr
        p = run([exe, "-phase", "conc", "-rounds", "2" if tier == "quick" else "3", "-out", tr + ".conc", "-stats", stats] + common_args,
                env=env, timeout=1500, ok_codes=(0, 66, 2))
        crashed = None
        if p.returncode == 2:
            # the Go runtime killed the process: "fatal error: concurrent map writes" and the like are the
            # runtime's own data-race detection; anything else is a failure of the driver
            if "fatal error: concurrent map" in p.stderr or "WARNING: DATA RACE" in p.stderr:
                crashed = [l for l in p.stderr.splitlines() if l.startswith("fatal error")][:1] or ["data race"]
                open(tr + ".conc", "w").close()
                json.dump({"events": 0, "concurrent_calls": 0}, open(stats, "w"))
            else:
                raise Infra("concdrive failed rc=2\n%s" % p.stderr[-3000:])
        with open(tr, "w") as f:
            f.write(open(tra).read())
            for x in extra_seq:
                f.write(open(x).read())
            f.write(open(tr + ".conc").read())
        p.stderr = p0.stderr + p.stderr
        st = json.load(open(stats))
        n = st["events"] + json.load(open(stats + ".seq"))["events"] + sum(sum(1 for _ in open(x)) for x in extra_seq)
        if crashed:
            with open(tr, "a") as f:
                f.write(json.dumps({"ev": "race", "g": -1, "n": 0, "op": "", "res": "", "sigidx": -1, "text": (crashed[0] + "\n" + p.stderr[-3000:])}) + "\n")
            n += 1
            races += 1
        if "WARNING: DATA RACE" in p.stderr:
            reports = p.stderr.split("==================")
            reports = [x.strip() for x in reports if "DATA RACE" in x]
            races += len(reports)
            with open(tr, "a") as f:
                for rep in reports[:5]:
                    f.write(json.dumps({"ev": "race", "g": -1, "n": 0, "op": "", "res": "", "sigidx": -1, "text": rep[:4000]}) + "\n")
                    n += 1
        elif p.returncode != 0:
            raise Infra("concdrive failed rc=%d\n%s" % (p.returncode, p.stderr[-3000:]))
        calls += st["concurrent_calls"]
        verdicts.append(kit.judge(label, "TraceConcurrent", "TraceKit", tr, expect_events=n))
    return kit.finish("C15", tier, t0, design, verdicts,
        extra_cov={"concurrent_calls": calls, "race_reports": races, "schedules": [{"goroutines": a, "GOMAXPROCS": b} for a, b, c in plans],
                   "control": "TLC finds the HistoryFree violation for CACHE=racy (stale read of a half-built lookup table)",
                   "rule": "74 distinct stateless calls + per-goroutine private XMSS key scripts; sequential oracle first, then the same calls from N goroutines under the race detector"},
        assumptions=["interleavings of the real code are sampled, not enumerated; the race detector is happens-before based, so races on executed paths are reported irrespective of timing",
                     "results are compared as SHA-256 digests"])
