"""C01, C02, C08: the XMSS key object as a state machine.
design check  : spec/XmssKey.tla (+Bds.tla) exhaustively for small heights
code -> spec  : cmd/xmssdrive drives real objects, spec/TraceXmssKey.tla validates every event
spec -> code  : TLC -simulate behaviours of XmssKey are executed on real objects (cmd/xmssdrive -plan)
"""
import json, os, time
from common import *

TRACE_CFG = """CONSTANTS
  H = %d
  K = 2
SPECIFICATION Spec
VIEW TraceView
CHECK_DEADLOCK FALSE
"""

def design_runs(tier, which):
    """TLC on the design spec. Returns (states, transitions, notes). A violation here means the
    SPEC is inconsistent (it does not depend on /repo): machinery failure, exit 2."""
    runs = []
    if which in ("C01", "C02", "C08"):
        runs += [("MCXmssKey", "XmssKey_H4", 8), ("MCXmssKey", "XmssKey_H6", 8)]
    if which == "C01":
        runs += [("MCXmssKey", "XmssKey_H10", 4)]
        runs += [("MCBds", "BdsClosed_H%d" % h, 1) for h in (4, 6, 8, 10, 12)]
        if tier == "thorough":
            runs += [("MCXmssKey", "XmssKey_H8", 16), ("MCXmssKey", "XmssKey_H12", 4), ("MCXmssKey", "XmssKey_H14", 4)]
    if which == "C08":
        runs += [("MCWallet", "Wallet_H4", 8)]
        if tier == "thorough":
            runs += [("MCXmssKey", "XmssKey_H8", 16), ("MCWallet", "Wallet_H6", 16)]
    if which == "C02" and tier == "thorough":
        runs += [("MCXmssKey", "XmssKey_H8", 16)]
    st = tr = 0
    notes = []
    for mod, cfg, w in runs:
        r = tlc(mod, cfg, workers=w, timeout=3000)
        if not r.ok:
            raise Infra("design spec %s/%s violates %s: the specification itself is inconsistent\n%s" % (mod, cfg, r.violated, r.out[-3000:]))
        st += r.distinct; tr += r.generated
        notes.append({"module": mod, "cfg": cfg, "distinct": r.distinct, "generated": r.generated, "wall_s": round(r.wall, 1)})
    if which == "C02":
        # the counter abstraction for EVERY tree size and every uint32 SetIndex argument (inductive, Apalache)
        import kit
        notes.append({"apalache": [
            kit.apalache("XmssCounter", init="Init", inv="IndInv", length=0, cinit="ConstInit", domain="N in 2..2^30"),
            kit.apalache("XmssCounter", init="IndInit", inv="IndInv", length=1, cinit="ConstInit", domain="N in 2..2^30, SetIndex argument in 0..2^32-1"),
            kit.apalache("XmssCounter", init="IndInit", next_="BadNext", inv="IndInv", length=1, cinit="ConstInit", expect_error=True)]})
    return st, tr, notes

def drive_and_validate(label, h, args, timeout=3000):
    """Run xmssdrive with args, validate the trace with TLC, return the verdict record."""
    exe = build("xmssdrive")
    sc = scratch()
    tr = os.path.join(sc, "xmss-%s.ndjson" % label)
    stats = os.path.join(sc, "xmss-%s.stats.json" % label)
    res = os.path.join(sc, "xmss-%s.result.json" % label)
    p = run([exe, "-h", str(h), "-seed", str(seed()), "-out", tr, "-stats", stats] + args, timeout=timeout)
    st = json.load(open(stats))
    cfg = ensure_cfg("TraceXmssKey_H%d_gen" % h, TRACE_CFG % h)
    r = tlc("TraceXmssKey", cfg, workers=1, env={"VERIF_TRACE": tr, "VERIF_RESULT": res}, timeout=timeout, heap="6g")
    if not os.path.exists(res):
        raise Infra("trace validation of %s produced no result (TLC stopped before the end of the trace)\n%s" % (label, r.out[-3000:]))
    v = json.load(open(res))
    if v["consumed"] != v["len"] or v["len"] != st["events"]:
        raise Infra("trace %s not fully consumed: %s of %s (driver wrote %s)" % (label, v["consumed"], v["len"], st["events"]))
    v.update(label=label, trace=tr, driver=st, tlc_states=r.distinct, tlc_generated=r.generated, args=args, h=h,
             wall_s=round(p.wall + r.wall, 1))
    log("[trace] %s: %d events, %d signatures, drift %d, violations %s (%.1fs drive, %.1fs TLC)" %
        (label, v["len"], st["signatures"], v["drift"], v["nviols"], p.wall, r.wall))
    if os.environ.get("VERIF_SELFTEST") and v["len"] <= 2500 and os.path.getsize(tr) < 8 << 20 and not sum(v["nviols"].values()) and "replay" not in label:
        import kit, itertools
        ctr = itertools.count()
        def jf(lab, pth, exp):
            res1 = os.path.join(sc, "xmss-%s.st%d.result.json" % (label, next(ctr)))
            r1 = tlc("TraceXmssKey", cfg, workers=1, env={"VERIF_TRACE": pth, "VERIF_RESULT": res1}, timeout=timeout, heap="3g")
            if not os.path.exists(res1):
                raise Infra("selftest trace produced no result")
            v1 = json.load(open(res1))
            return {"nviol": sum(v1["nviols"].values()), "drift": v1["drift"], "viols": v1["viols"]}
        kit.selftest(label, "TraceXmssKey", cfg, tr, stateless=False, judge_fn=jf, max_trials=24)
    return v

def sample_events(trace, n=3):
    out = []
    with open(trace) as f:
        for i, line in enumerate(f):
            if i in (0, 1) or len(out) < n and '"SetIndex"' in line:
                e = json.loads(line)
                out.append({k: e[k] for k in e if k != "st"} | {"st.auth": e.get("st", {}).get("auth")})
            if len(out) >= n:
                break
    return out

PLANS = {
    # label, h, args
    "C01": {
        "quick": [
            ("h24-pos-tall", 24, ["-hf", "1", "-pos", "-modes", "tall"]),    # longest first (run in parallel)
            ("h22-tall", 22, ["-hf", "2", "-seam", "-modes", "tall"]),
            ("h4-real", 4, ["-hf", "0,1,2", "-modes", "walk,jumps", "-jumpmode", "all"]),
            ("h6-real", 6, ["-hf", "0,1,2", "-modes", "walk"]),
            ("h6-real-jumps", 6, ["-hf", "0", "-modes", "jumps", "-jumpmode", "classes", "-stride", "3"]),
            ("h8-real", 8, ["-hf", "0", "-modes", "walk"]),
            ("h6-seam", 6, ["-hf", "1", "-seam", "-modes", "jumps", "-jumpmode", "all"]),
            ("h8-seam", 8, ["-hf", "2", "-seam", "-modes", "walk,jumps", "-jumpmode", "classes", "-stride", "16"]),
            ("h10-seam", 10, ["-hf", "0", "-seam", "-modes", "walk,jumps", "-jumpmode", "sample:1", "-stride", "100"]),
            ("h18-tall", 18, ["-hf", "1", "-seam", "-modes", "tall"]),
        ],
        "thorough": [
            ("h4-real", 4, ["-hf", "0,1,2", "-modes", "walk,jumps,random", "-jumpmode", "all", "-reps", "4"]),
            ("h6-real", 6, ["-hf", "0,1,2", "-modes", "walk,jumps", "-jumpmode", "all"]),
            ("h8-real", 8, ["-hf", "0,1,2", "-modes", "walk"]),
            ("h8-real-jumps", 8, ["-hf", "0", "-modes", "jumps", "-jumpmode", "classes", "-stride", "9"]),
            ("h10-real", 10, ["-hf", "0", "-modes", "walk"]),
            ("h8-seam", 8, ["-hf", "1", "-seam", "-modes", "jumps", "-jumpmode", "all", "-stride", "5"]),
            ("h10-seam", 10, ["-hf", "2", "-seam", "-modes", "walk,jumps", "-jumpmode", "classes", "-stride", "9"]),
            ("h12-seam", 12, ["-hf", "0", "-seam", "-modes", "walk,jumps", "-jumpmode", "classes", "-stride", "41"]),
            ("h14-seam", 14, ["-hf", "1", "-seam", "-modes", "walk"]),
            ("h16-tall", 16, ["-hf", "0", "-seam", "-modes", "tall"]),
            ("h18-tall", 18, ["-hf", "1", "-seam", "-modes", "tall"]),
            ("h20-tall", 20, ["-hf", "2", "-seam", "-modes", "tall"]),
            ("h22-tall", 22, ["-hf", "0", "-seam", "-modes", "tall"]),
            ("h24-pos-tall", 24, ["-hf", "1", "-pos", "-modes", "tall"]),
            ("h26-pos-tall", 26, ["-hf", "2", "-pos", "-modes", "tall"]),
            ("h28-pos-tall", 28, ["-hf", "0", "-pos", "-modes", "tall"]),
            ("h30-pos-tall", 30, ["-hf", "1", "-pos", "-modes", "tall"]),
            ("h10-pos", 10, ["-hf", "0,1,2", "-pos", "-modes", "walk"]),
        ],
    },
    "C02": {
        "quick": [
            ("h4-real", 4, ["-hf", "0,1,2", "-modes", "walk,random,jumps", "-jumpmode", "classes", "-reps", "6"]),
            ("h6-real", 6, ["-hf", "0", "-modes", "random", "-reps", "3"]),
            ("h6-seam", 6, ["-hf", "1,2", "-seam", "-modes", "walk,random", "-reps", "12"]),
            ("h8-seam", 8, ["-hf", "0", "-seam", "-modes", "random", "-reps", "6"]),
            ("h18-tall", 18, ["-hf", "2", "-seam", "-modes", "tall"]),
            ("h26-pos-tall", 26, ["-hf", "1", "-pos", "-modes", "tall"]),   # the top byte of the 4-byte index: index >= 2^24
            ("h20-pos-tall", 20, ["-hf", "0", "-pos", "-modes", "tall"]),
            ("h4-otherhash", 4, ["-hf", "0", "-modes", "counter"]),
            ("h6-otherhash", 6, ["-hf", "0", "-modes", "counter"]),
        ],
        "thorough": [
            ("h4-real", 4, ["-hf", "0,1,2", "-modes", "walk,random,jumps", "-jumpmode", "all", "-reps", "40"]),
            ("h4-otherhash", 4, ["-hf", "0,1,2", "-modes", "counter"]),
            ("h8-otherhash", 8, ["-hf", "0,1", "-modes", "counter"]),
            ("h6-real", 6, ["-hf", "0,1,2", "-modes", "walk,random", "-reps", "10"]),
            ("h8-real", 8, ["-hf", "0", "-modes", "random", "-reps", "2"]),
            ("h6-seam", 6, ["-hf", "1", "-seam", "-modes", "random", "-reps", "200"]),
            ("h8-seam", 8, ["-hf", "2", "-seam", "-modes", "walk,random", "-reps", "60"]),
            ("h10-seam", 10, ["-hf", "0", "-seam", "-modes", "random", "-reps", "10"]),
            ("h18-tall", 18, ["-hf", "2", "-seam", "-modes", "tall"]),
            ("h20-tall", 20, ["-hf", "0", "-seam", "-modes", "tall"]),
            ("h24-pos-tall", 24, ["-hf", "1", "-pos", "-modes", "tall"]),
            ("h30-pos-tall", 30, ["-hf", "2", "-pos", "-modes", "tall"]),
        ],
    },
    "C08": {
        "quick": [
            ("h4-real", 4, ["-hf", "0,1,2", "-modes", "rebuild", "-window", "16"]),
            ("h6-real", 6, ["-hf", "0", "-modes", "rebuild", "-window", "8", "-crashevery", "5"]),
            ("h6-seam", 6, ["-hf", "1", "-seam", "-modes", "rebuild", "-window", "64"]),
            ("h8-seam", 8, ["-hf", "2", "-seam", "-modes", "rebuild", "-window", "10", "-crashevery", "7"]),
            ("h18-tallrebuild", 18, ["-hf", "0", "-seam", "-modes", "tallrebuild"]),
            ("h24-pos-tallrebuild", 24, ["-hf", "2", "-pos", "-modes", "tallrebuild"]),
        ],
        "thorough": [
            ("h4-real", 4, ["-hf", "0,1,2", "-modes", "rebuild", "-window", "16"]),
            ("h6-real", 6, ["-hf", "0,1,2", "-modes", "rebuild", "-window", "64"]),
            ("h8-real", 8, ["-hf", "0", "-modes", "rebuild", "-window", "10", "-crashevery", "11"]),
            ("h8-seam", 8, ["-hf", "1", "-seam", "-modes", "rebuild", "-window", "256"]),
            ("h10-seam", 10, ["-hf", "2", "-seam", "-modes", "rebuild", "-window", "12", "-crashevery", "13"]),
            ("h18-tallrebuild", 18, ["-hf", "0", "-seam", "-modes", "tallrebuild"]),
            ("h20-tallrebuild", 20, ["-hf", "1", "-seam", "-modes", "tallrebuild"]),
            ("h24-pos-tallrebuild", 24, ["-hf", "2", "-pos", "-modes", "tallrebuild"]),
            ("h28-pos-tallrebuild", 28, ["-hf", "0", "-pos", "-modes", "tallrebuild"]),
        ],
    },
}

LEVEL_TEXT = {
    "C01": "every index of heights 4..10 (real hashing) / ..14 (synthetic leaves) and every single jump of heights 4, 6 walked on the real code, each event validated against the TLA+ traversal model",
}

def check(pid, tier):
    t0 = time.time()
    st, trn, notes = design_runs(tier, pid)
    build("xmssdrive")
    spec_dir()
    from concurrent.futures import ThreadPoolExecutor
    with ThreadPoolExecutor(max_workers=max(2, NCPU // 3)) as ex:
        verdicts = list(ex.map(lambda p: drive_and_validate(*p), PLANS[pid][tier]))
    # spec -> code: behaviours generated by TLC from the design spec, executed on real objects
    verdicts += replay_behaviours(pid, tier)
    viols = []
    other = []
    nv = 0
    drift = 0
    events = 0
    sigs = 0
    for v in verdicts:
        drift += v["drift"]
        events += v["len"]
        sigs += v["driver"]["signatures"]
        st += v["tlc_states"]; trn += v["tlc_generated"]
        nv += v["nviols"].get(pid, 0)
        for x in v["viols"]:
            (viols if x["prop"] == pid else other).append(dict(x, label=v["label"], trace=v["trace"], args=v["args"], h=v["h"]))
    replay = None
    if nv and not viols:
        raise Infra("violations of %s counted but none recorded" % pid)
    if viols:
        first = viols[0]
        evs = read_ndjson(first["trace"])
        e = evs[first["l"] - 1]
        hist = [x for x in evs[:first["l"]] if x.get("k") == e.get("k") or x.get("k") == e.get("from")]
        replay = write_replay(pid, "violation-seed%d-%s.json" % (seed(), first["label"]), {
            "property": pid, "what": first["what"], "trace_line": first["l"], "driver_args": first["args"], "h": first["h"],
            "seed": seed(), "tier": tier, "event": e, "history_of_object": hist[-40:], "all_violations": viols[:50]})
    cov = {
        "states": st, "transitions": trn,
        "traces_validated_against_impl": len(verdicts),
        "events_validated": events, "signatures_checked": sigs,
        "model_drift": drift,
        "first_drift": [{"label": v["label"], "line": v["firstDrift"]} for v in verdicts if v["drift"]][:5],
        "other_property_violations_seen": [dict(prop=x["prop"], what=x["what"], label=x["label"]) for x in other[:10]],
        "design_runs": notes,
        "trace_runs": [{"label": v["label"], "h": v["h"], "args": " ".join(v["args"]), "events": v["len"],
                        "counts": v["counts"], "drift": v["drift"], "wall_s": v["wall_s"]} for v in verdicts],
        "behaviours_replayed_into_impl": sum(v.get("behaviours", 0) for v in verdicts),
        "samples": sample_events(verdicts[0]["trace"]) + [{"tlc_generated_behaviour": v["sample_behaviour"]} for v in verdicts if "sample_behaviour" in v][:1],
        "exhaustive": False,
        "explanation": "design: TLC exhaustive on XmssKey.tla for the listed configs; conformance: every event of every listed trace explained by XmssKeyOps applied to the previous logged state (TraceXmssKey.tla)",
    }
    write_evidence(pid, tier, "model_checking", cov, time.time() - t0, nv,
                   ["projection of 32-byte values to tree nodes uses a full tree built with the library's own genLeafWOTS/hashH (checked separately by C06)",
                    "heights above 22 are not walked (DESIGN 11.7); the traversal's control flow depends only on (h, index history)"])
    if drift:
        log("MODEL-DRIFT property=%s events=%d: the code no longer follows spec/Bds.tla step by step (property observables %s)" %
            (pid, drift, "FAILED" if viols else "intact"))
    import kit as _kit
    _kit.selftest_write(pid)
    if viols:
        print("VIOLATION property=%s replay=%s" % (pid, replay))
        log("  " + viols[0]["what"])
        return 1
    return 0

SIM = {  # (h, hf list, seam, behaviours kept)
    "quick":    [(4, "0,1,2", False, 40), (6, "1", True, 60), (8, "2", True, 30)],
    "thorough": [(4, "0,1,2", False, 300), (6, "0,1,2", False, 60), (6, "1", True, 600), (8, "2", True, 200)],
}

def generate_behaviours(h, keep, tag):
    """TLC -simulate on SimWallet: returns a list of behaviours (lists of ops)."""
    import random
    r = tlc("SimWallet", "SimWallet_H%d" % h, workers=1, simulate="num=%d" % max(4, keep // 8), depth=5 * h + 5,
            seed_=seed() * 101 + h, timeout=900)
    behs = []
    seen = set()
    for line in r.out.splitlines():
        if line.startswith('<<"BEHAVIOUR", "'):
            js = line[len('<<"BEHAVIOUR", "'):line.rindex('">>')].replace('\\"', '"')
            if js not in seen:
                seen.add(js)
                behs.append(json.loads(js))
    if not behs:
        raise Infra("TLC simulation produced no behaviours for H=%d\n%s" % (h, r.out[-2000:]))
    random.Random(seed() * 7 + h).shuffle(behs)
    return behs[:keep], r

def replay_behaviours(pid, tier):
    out = []
    from concurrent.futures import ThreadPoolExecutor
    def one(spec):
        h, hfs, seam, keep = spec
        behs, r = generate_behaviours(h, keep, pid)
        plan = os.path.join(scratch(), "plan-h%d-%s.json" % (h, "seam" if seam else "real"))
        json.dump(behs, open(plan, "w"))
        args = ["-hf", hfs, "-modes", "plan", "-plan", plan] + (["-seam"] if seam else [])
        v = drive_and_validate("replay-h%d-%s" % (h, "seam" if seam else "real"), h, args)
        v["behaviours"] = len(behs) * len(hfs.split(","))
        v["sim_states"] = r.generated
        v["sample_behaviour"] = behs[0]
        return v
    with ThreadPoolExecutor(max_workers=4) as ex:
        out = list(ex.map(one, SIM[tier]))
    return out
