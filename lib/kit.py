"""Generic check built on TraceKit.tla: design configs + (driver -> ndjson -> TLC judge)."""
import json, os, time
from common import *

def run_design(runs):
    """TLC on design configs (independent of /repo), a few at a time."""
    from concurrent.futures import ThreadPoolExecutor
    spec_dir()
    def one(run_):
        mod, cfg, w = run_
        r = tlc(mod, cfg, workers=max(2, min(w, NCPU // 2)), timeout=3000)
        if not r.ok:
            raise Infra("design spec %s/%s violates %s: the specification itself is inconsistent\n%s" % (mod, cfg, r.violated, r.out[-3000:]))
        return {"module": mod, "cfg": cfg, "distinct": r.distinct, "generated": r.generated, "wall_s": round(r.wall, 1)}
    with ThreadPoolExecutor(max_workers=3) as ex:
        notes = list(ex.map(one, runs))
    return sum(n["distinct"] for n in notes), sum(n["generated"] for n in notes), notes

def drive(cmd, label, args, race=False, timeout=3000, extra_env=None):
    exe = build(cmd, race=race)
    sc = scratch()
    tr = os.path.join(sc, "%s.ndjson" % label)
    stats = os.path.join(sc, "%s.stats.json" % label)
    e = dict(os.environ)
    if extra_env:
        e.update(extra_env)
    p = run([exe, "-seed", str(seed()), "-out", tr, "-stats", stats] + args, timeout=timeout, env=e)
    st = json.load(open(stats)) if os.path.exists(stats) else {}
    return tr, st, p

def judge(label, module, cfg, trace, env=None, timeout=3000, expect_events=None, heap="6g", workers=1, shards=1):
    """Validate a trace with a TraceKit-based spec. shards > 1: the events are judged one at a time
    (no state is carried between them), so the trace is cut into contiguous chunks validated by
    parallel TLC processes and the verdicts are merged (line numbers are mapped back)."""
    if shards > 1:
        lines = open(trace).read().splitlines(True)
        n = len(lines)
        shards = max(1, min(shards, n // 50 or 1))
        if shards > 1:
            from concurrent.futures import ThreadPoolExecutor
            size = (n + shards - 1) // shards
            parts = []
            for i in range(shards):
                chunk = lines[i * size:(i + 1) * size]
                if not chunk:
                    continue
                pth = "%s.shard%d" % (trace, i)
                with open(pth, "w") as f:
                    f.writelines(chunk)
                parts.append((i * size, pth, len(chunk)))
            def one(part):
                off, pth, ln = part
                return off, judge("%s-s%d" % (label, off), module, cfg, pth, env=env, timeout=timeout, expect_events=ln, heap="3g", workers=1)
            with ThreadPoolExecutor(max_workers=min(len(parts), NCPU)) as ex:
                rs = list(ex.map(one, parts))
            v = {"consumed": 0, "len": 0, "viols": [], "nviol": 0, "drift": [], "counts": {}, "tlc_states": 0, "tlc_generated": 0, "tlc_wall": 0.0}
            for off, r in rs:
                v["consumed"] += r["consumed"]; v["len"] += r["len"]; v["nviol"] += r["nviol"]
                v["viols"] += [dict(x, l=x["l"] + off) for x in r["viols"]]
                v["drift"] += [dict(x, l=x["l"] + off) for x in r.get("drift", [])]
                for k, c in (r.get("counts") or {}).items():
                    v["counts"][k] = v["counts"].get(k, 0) + c
                v["tlc_states"] += r["tlc_states"]; v["tlc_generated"] += r["tlc_generated"]; v["tlc_wall"] = max(v["tlc_wall"], r["tlc_wall"])
            if expect_events is not None and v["len"] != expect_events:
                raise Infra("trace %s not fully consumed: %s of %s" % (label, v["len"], expect_events))
            v.update(label=label, trace=trace)
            log("[judge] %s: %d events in %d shards, %d violations, %d drift notes (%.1fs TLC)" % (label, v["len"], len(parts), v["nviol"], len(v["drift"]), v["tlc_wall"]))
            return v
    res = os.path.join(scratch(), "%s.result.json" % label)
    e = {"VERIF_TRACE": trace, "VERIF_RESULT": res}
    if env:
        e.update(env)
    r = tlc(module, cfg, workers=workers, env=e, timeout=timeout, heap=heap)
    if not r.ok:
        raise Infra("trace spec %s reported %s (not a verdict path)\n%s" % (module, r.violated, r.out[-3000:]))
    if not os.path.exists(res):
        raise Infra("trace validation %s produced no result\n%s" % (label, r.out[-3000:]))
    v = json.load(open(res))
    if v["consumed"] != v["len"] or (expect_events is not None and v["len"] != expect_events):
        raise Infra("trace %s not fully consumed: %s of %s (driver wrote %s)" % (label, v["consumed"], v["len"], expect_events))
    v.update(label=label, trace=trace, tlc_states=r.distinct, tlc_generated=r.generated, tlc_wall=round(r.wall, 1))
    log("[judge] %s: %d events, %d violations, %d drift notes (%.1fs TLC)" % (label, v["len"], v["nviol"], len(v.get("drift", [])), r.wall))
    return v

def strip_event(e, maxlen=24):
    out = {}
    for k, x in e.items():
        if isinstance(x, list) and len(x) > maxlen:
            out[k] = x[:maxlen] + ["...(%d)" % len(x)]
        else:
            out[k] = x
    return out

def sample_lines(trace, n=3, pick=None):
    out = []
    with open(trace) as f:
        for i, line in enumerate(f):
            if pick is None or pick(i, line):
                out.append(strip_event(json.loads(line)))
            if len(out) >= n:
                break
    return out

def finish(pid, tier, t0, design, verdicts, known=None, extra_cov=None, assumptions=(), exhaustive=False):
    """verdicts: list of judge() results. known(v, viol)->key or None marks known findings."""
    st, trn, notes = design
    viols = []
    nv = 0
    events = 0
    for v in verdicts:
        st += v["tlc_states"]; trn += v["tlc_generated"]; events += v["len"]
        nv += v["nviol"]
        for x in v["viols"]:
            viols.append(dict(x, label=v["label"], trace=v["trace"]))
    if nv and not viols:
        raise Infra("violations counted but none recorded")
    kf = known_findings()
    fresh = []
    seen_known = {}
    for x in viols:
        ev = None
        key = None
        if known:
            evs = read_ndjson(x["trace"])
            ev = evs[x["l"] - 1]
            key = known(ev, x)
        m = [k for k in kf if k["property"] == pid and key is not None and k["key"] == key]
        if m:
            seen_known[key] = m[0]["text"]
        else:
            fresh.append((x, ev))
    # violations beyond the recorded cap cannot be classified: treat as fresh unless everything recorded is known
    unrecorded = nv - len(viols)
    replay = None
    if fresh:
        x, ev = fresh[0]
        if ev is None:
            ev = read_ndjson(x["trace"])[x["l"] - 1]
        replay = write_replay(pid, "violation-seed%d-%s.json" % (seed(), x["label"]), {
            "property": pid, "what": x["what"], "trace_line": x["l"], "label": x["label"], "seed": seed(), "tier": tier,
            "event": ev, "all_violations": [f[0] for f in fresh[:50]]})
    cov = {
        "states": st, "transitions": trn,
        "traces_validated_against_impl": len(verdicts),
        "events_validated": events,
        "design_runs": notes,
        "trace_runs": [{"label": v["label"], "events": v["len"], "counts": v.get("counts"), "violations": v["nviol"],
                        "drift_notes": len(v.get("drift", [])), "tlc_wall_s": v["tlc_wall"]} for v in verdicts],
        "known_findings_seen": sorted(seen_known),
        "samples": sum([sample_lines(v["trace"], 2) for v in verdicts[:2]], []),
        "exhaustive": exhaustive,
    }
    if extra_cov:
        cov.update(extra_cov)
    write_evidence(pid, tier, "model_checking", cov, time.time() - t0, len(fresh) + (unrecorded if fresh else 0), assumptions)
    for key in sorted(seen_known):
        print("KNOWN-FINDING: property=%s %s" % (pid, seen_known[key]))
    if fresh:
        print("VIOLATION property=%s replay=%s" % (pid, replay))
        log("  " + fresh[0][0]["what"])
        return 1
    return 0


def apalache(module, init="Init", next_="Next", inv="Inv", length=0, cinit=None, expect_error=False, domain=""):
    """Symbolic check with Apalache (whole integer ranges, which TLC cannot enumerate).  A failure to prove is a
    property of the specification, not of /repo: it is an infrastructure failure (exit 2), never a verdict."""
    import shutil, tempfile, subprocess
    d = tempfile.mkdtemp(prefix="apa-", dir=scratch())
    shutil.copy(os.path.join(SPEC, module + ".tla"), d)
    t0 = time.time()
    cmd = ["apalache-mc", "check", "--init=" + init, "--next=" + next_, "--inv=" + inv, "--length=%d" % length]
    if cinit:
        cmd.append("--cinit=" + cinit)
    try:
        p = subprocess.run(cmd + [module + ".tla"], cwd=d, capture_output=True, text=True, timeout=900)
    except subprocess.TimeoutExpired:
        raise Infra("apalache timeout on %s.tla" % module)
    out = p.stdout + p.stderr
    what = "%s.tla init=%s next=%s inv=%s length=%d" % (module, init, next_, inv, length)
    if expect_error:
        if "The outcome is: Error" not in out:
            raise Infra("control failed: Apalache did not refute %s\n%s" % (what, out[-2000:]))
        log("[apalache] %s: refuted as expected (%.1fs)" % (what, time.time() - t0))
        return {"check": what, "outcome": "Error (expected: control)", "wall_s": round(time.time() - t0, 1)}
    if "The outcome is: NoError" not in out:
        raise Infra("Apalache did not prove %s (a property of the specification, not of /repo):\n%s" % (what, out[-2000:]))
    log("[apalache] %s: NoError (%.1fs)" % (what, time.time() - t0))
    return {"check": what, "outcome": "NoError", "wall_s": round(time.time() - t0, 1), "domain": domain}
