"""Generic check built on TraceKit.tla: design configs + (driver -> ndjson -> TLC judge)."""
import json, os, time
from common import *

def run_design(runs):
    """TLC on design configs (independent of /repo), a few at a time."""
    from concurrent.futures import ThreadPoolExecutor
    spec_dir()
    def one(run_):
        mod, cfg, w = run_
        r = tlc(mod, cfg, workers=max(2, min(w, NCPU // 2)), timeout=3000)
        if not r.ok:
            raise Infra("design spec %s/%s violates %s: the specification itself is inconsistent\n%s" % (mod, cfg, r.violated, r.out[-3000:]))
        return {"module": mod, "cfg": cfg, "distinct": r.distinct, "generated": r.generated, "wall_s": round(r.wall, 1)}
    with ThreadPoolExecutor(max_workers=3) as ex:
        notes = list(ex.map(one, runs))
    return sum(n["distinct"] for n in notes), sum(n["generated"] for n in notes), notes

def drive(cmd, label, args, race=False, timeout=3000, extra_env=None):
    exe = build(cmd, race=race)
    sc = scratch()
    tr = os.path.join(sc, "%s.ndjson" % label)
    stats = os.path.join(sc, "%s.stats.json" % label)
    e = dict(os.environ)
    if extra_env:
        e.update(extra_env)
    p = run([exe, "-seed", str(seed()), "-out", tr, "-stats", stats] + args, timeout=timeout, env=e)
    st = json.load(open(stats)) if os.path.exists(stats) else {}
    return tr, st, p

STATEFUL = {"TraceConcurrent", "TraceXmssKey"}

def judge(label, module, cfg, trace, env=None, timeout=3000, expect_events=None, heap="6g", workers=1, shards=1, _inner=False):
    """Validate a trace with a TraceKit-based spec. shards > 1: the events are judged one at a time
    (no state is carried between them), so the trace is cut into contiguous chunks validated by
    parallel TLC processes and the verdicts are merged (line numbers are mapped back)."""
    if shards > 1:
        lines = open(trace).read().splitlines(True)
        n = len(lines)
        shards = max(1, min(shards, n // 50 or 1))
        if shards > 1:
            from concurrent.futures import ThreadPoolExecutor
            size = (n + shards - 1) // shards
            parts = []
            for i in range(shards):
                chunk = lines[i * size:(i + 1) * size]
                if not chunk:
                    continue
                pth = "%s.shard%d" % (trace, i)
                with open(pth, "w") as f:
                    f.writelines(chunk)
                parts.append((i * size, pth, len(chunk)))
            def one(part):
                off, pth, ln = part
                return off, judge("%s-s%d" % (label, off), module, cfg, pth, env=env, timeout=timeout, expect_events=ln, heap="3g", workers=1, _inner=True)
            with ThreadPoolExecutor(max_workers=min(len(parts), NCPU)) as ex:
                rs = list(ex.map(one, parts))
            v = {"consumed": 0, "len": 0, "viols": [], "nviol": 0, "drift": [], "counts": {}, "tlc_states": 0, "tlc_generated": 0, "tlc_wall": 0.0}
            for off, r in rs:
                v["consumed"] += r["consumed"]; v["len"] += r["len"]; v["nviol"] += r["nviol"]
                v["viols"] += [dict(x, l=x["l"] + off) for x in r["viols"]]
                v["drift"] += [dict(x, l=x["l"] + off) for x in r.get("drift", [])]
                for k, c in (r.get("counts") or {}).items():
                    v["counts"][k] = v["counts"].get(k, 0) + c
                v["tlc_states"] += r["tlc_states"]; v["tlc_generated"] += r["tlc_generated"]; v["tlc_wall"] = max(v["tlc_wall"], r["tlc_wall"])
            if expect_events is not None and v["len"] != expect_events:
                raise Infra("trace %s not fully consumed: %s of %s" % (label, v["len"], expect_events))
            v.update(label=label, trace=trace)
            log("[judge] %s: %d events in %d shards, %d violations, %d drift notes (%.1fs TLC)" % (label, v["len"], len(parts), v["nviol"], len(v["drift"]), v["tlc_wall"]))
            if not v["nviol"] and "selftest" not in label:
                selftest(label, module, cfg, trace, env=env, heap="3g", stateless=module not in STATEFUL)
            return v
    res = os.path.join(scratch(), "%s.result.json" % label)
    e = {"VERIF_TRACE": trace, "VERIF_RESULT": res}
    if env:
        e.update(env)
    r = tlc(module, cfg, workers=workers, env=e, timeout=timeout, heap=heap)
    if not r.ok:
        raise Infra("trace spec %s reported %s (not a verdict path)\n%s" % (module, r.violated, r.out[-3000:]))
    if not os.path.exists(res):
        raise Infra("trace validation %s produced no result\n%s" % (label, r.out[-3000:]))
    v = json.load(open(res))
    if v["consumed"] != v["len"] or (expect_events is not None and v["len"] != expect_events):
        raise Infra("trace %s not fully consumed: %s of %s (driver wrote %s)" % (label, v["consumed"], v["len"], expect_events))
    v.update(label=label, trace=trace, tlc_states=r.distinct, tlc_generated=r.generated, tlc_wall=round(r.wall, 1))
    log("[judge] %s: %d events, %d violations, %d drift notes (%.1fs TLC)" % (label, v["len"], v["nviol"], len(v.get("drift", [])), r.wall))
    if not _inner and not v["nviol"] and "selftest" not in label:
        selftest(label, module, cfg, trace, env=env, heap=heap, stateless=module not in STATEFUL)
    return v

def strip_event(e, maxlen=24):
    out = {}
    for k, x in e.items():
        if isinstance(x, list) and len(x) > maxlen:
            out[k] = x[:maxlen] + ["...(%d)" % len(x)]
        else:
            out[k] = x
    return out

def sample_lines(trace, n=3, pick=None):
    out = []
    with open(trace) as f:
        for i, line in enumerate(f):
            if pick is None or pick(i, line):
                out.append(strip_event(json.loads(line)))
            if len(out) >= n:
                break
    return out

def finish(pid, tier, t0, design, verdicts, known=None, extra_cov=None, assumptions=(), exhaustive=False):
    """verdicts: list of judge() results. known(v, viol)->key or None marks known findings."""
    st, trn, notes = design
    viols = []
    nv = 0
    events = 0
    for v in verdicts:
        st += v["tlc_states"]; trn += v["tlc_generated"]; events += v["len"]
        nv += v["nviol"]
        for x in v["viols"]:
            viols.append(dict(x, label=v["label"], trace=v["trace"]))
    if nv and not viols:
        raise Infra("violations counted but none recorded")
    kf = known_findings()
    fresh = []
    seen_known = {}
    cache = {}
    for x in viols:
        ev = None
        key = None
        if known:
            if x["trace"] not in cache:      # one pass per trace file, not one per violation
                cache[x["trace"]] = read_ndjson(x["trace"])
            evs = cache[x["trace"]]
            ev = evs[x["l"] - 1]
            key = known(ev, x)
        m = [k for k in kf if k["property"] == pid and key is not None and k["key"] == key]
        if m:
            seen_known[key] = m[0]["text"]
        else:
            fresh.append((x, ev))
    # violations beyond the recorded cap cannot be classified: treat as fresh unless everything recorded is known
    unrecorded = nv - len(viols)
    replay = None
    if fresh:
        x, ev = fresh[0]
        if ev is None:
            ev = read_ndjson(x["trace"])[x["l"] - 1]
        replay = write_replay(pid, "violation-seed%d-%s.json" % (seed(), x["label"]), {
            "property": pid, "what": x["what"], "trace_line": x["l"], "label": x["label"], "seed": seed(), "tier": tier,
            "event": ev, "all_violations": [f[0] for f in fresh[:50]]})
    cov = {
        "states": st, "transitions": trn,
        "traces_validated_against_impl": len(verdicts),
        "events_validated": events,
        "design_runs": notes,
        "trace_runs": [{"label": v["label"], "events": v["len"], "counts": v.get("counts"), "violations": v["nviol"],
                        "drift_notes": len(v.get("drift", [])), "tlc_wall_s": v["tlc_wall"]} for v in verdicts],
        "known_findings_seen": sorted(seen_known),
        "samples": sum([sample_lines(v["trace"], 2) for v in verdicts[:2]], []),
        "exhaustive": exhaustive,
    }
    if extra_cov:
        cov.update(extra_cov)
    write_evidence(pid, tier, "model_checking", cov, time.time() - t0, len(fresh) + (unrecorded if fresh else 0), assumptions)
    selftest_write(pid)
    for key in sorted(seen_known):
        print("KNOWN-FINDING: property=%s %s" % (pid, seen_known[key]))
    if fresh:
        print("VIOLATION property=%s replay=%s" % (pid, replay))
        log("  " + fresh[0][0]["what"])
        return 1
    return 0


def apalache(module, init="Init", next_="Next", inv="Inv", length=0, cinit=None, expect_error=False, domain=""):
    """Symbolic check with Apalache (whole integer ranges, which TLC cannot enumerate).  A failure to prove is a
    property of the specification, not of /repo: it is an infrastructure failure (exit 2), never a verdict."""
    import shutil, tempfile, subprocess
    d = tempfile.mkdtemp(prefix="apa-", dir=scratch())
    shutil.copy(os.path.join(SPEC, module + ".tla"), d)
    t0 = time.time()
    cmd = ["apalache-mc", "check", "--init=" + init, "--next=" + next_, "--inv=" + inv, "--length=%d" % length]
    if cinit:
        cmd.append("--cinit=" + cinit)
    try:
        jt = os.path.join(d, "jtmp")
        os.makedirs(jt, exist_ok=True)               # SANY's temporary directories stay inside the scratch directory
        p = subprocess.run(cmd + [module + ".tla"], cwd=d, capture_output=True, text=True, timeout=900,
                           env=dict(os.environ, TMPDIR=jt))   # apalache-mc: mktemp -d -t SANY..
    except subprocess.TimeoutExpired:
        raise Infra("apalache timeout on %s.tla" % module)
    out = p.stdout + p.stderr
    what = "%s.tla init=%s next=%s inv=%s length=%d" % (module, init, next_, inv, length)
    if expect_error:
        if "The outcome is: Error" not in out:
            raise Infra("control failed: Apalache did not refute %s\n%s" % (what, out[-2000:]))
        log("[apalache] %s: refuted as expected (%.1fs)" % (what, time.time() - t0))
        return {"check": what, "outcome": "Error (expected: control)", "wall_s": round(time.time() - t0, 1)}
    if "The outcome is: NoError" not in out:
        raise Infra("Apalache did not prove %s (a property of the specification, not of /repo):\n%s" % (what, out[-2000:]))
    log("[apalache] %s: NoError (%.1fs)" % (what, time.time() - t0))
    return {"check": what, "outcome": "NoError", "wall_s": round(time.time() - t0, 1), "domain": domain}


# ---------------------------------------------------------------------------------------------------
# Binding self-test: a trace the specification accepts is corrupted in ONE recorded value and judged
# again; a specification that really constrains the recorded behaviour must reject it.  The result is a
# table (event kind, field) -> trials / rejected.  Fields that are never bound are either descriptive
# (labels; listed in selftest_descriptive.txt with the reason) or a hole in the trace specification.
SELFTEST = []

def _leaves(x, path=()):
    if isinstance(x, dict):
        for k, v in x.items():
            yield from _leaves(v, path + (k,))
    elif isinstance(x, list):
        for i, v in enumerate(x):
            yield from _leaves(v, path + (i,))
    else:
        yield path, x

def _mutate(v, in_array, rng):
    if isinstance(v, bool):
        return not v
    if isinstance(v, int):
        if in_array and 0 <= v <= 255:
            return v ^ (1 << rng.randrange(8))
        return v + 1
    if isinstance(v, str):
        if v in ("true", "false"):
            return "false" if v == "true" else "true"
        if v and all(c in "0123456789abcdef" for c in v):
            i = rng.randrange(len(v))
            return v[:i] + ("0" if v[i] != "0" else "1") + v[i + 1:]
        return v + "x"
    return None

def _set(e, path, val):
    for p in path[:-1]:
        e = e[p]
    e[path[-1]] = val

def corrupt_line(line, rng, field):
    """one type-preserving change of one recorded value below the top-level field; returns (new line, kind, field, old, new) or None"""
    e = json.loads(line)
    if field not in e:
        return None
    lv = list(_leaves(e[field], (field,)))
    if not lv:
        return None
    path, old = lv[rng.randrange(len(lv))]
    new = _mutate(old, len(path) > 1, rng)
    if new is None or new == old:
        return None
    _set(e, path, new)
    return json.dumps(e, separators=(",", ":")), e.get("ev", "?"), field, old, new

def selftest_descriptive():
    """fields that describe an event for the reader and are not judged: module -> set of field names"""
    out = {}
    p = os.path.join(VERIF, "selftest_descriptive.txt")
    if os.path.exists(p):
        for l in open(p):
            l = l.split("#")[0].strip()
            if l:
                mod, fields = l.split(":", 1)
                out.setdefault(mod.strip(), set()).update(fields.split())
    return out

def selftest(label, module, cfg, trace, env=None, heap="6g", stateless=True, n=None, judge_fn=None, batch=25, max_trials=None):
    import random
    n = n or int(os.environ.get("VERIF_SELFTEST", "0"))
    if n <= 0:
        return
    rng = random.Random(seed() * 7919 + len(SELFTEST))
    lines = open(trace).read().splitlines()
    desc = selftest_descriptive().get(module, set())
    trials = []
    # the fields the specification reads are the e.<name> that occur in its text; everything else a driver
    # records is descriptive.  n trials per (event kind, referenced field), on lines where the field holds
    # something (a zero / empty value usually means "not used by this kind of event")
    import re as _re
    spec_txt = open(os.path.join(SPEC, module + ".tla")).read()
    referenced = set(_re.findall(r"\b(?:e|Ev|ev|it)\.([A-Za-z_][A-Za-z0-9_]*)", spec_txt))
    by_kind = {}
    for i, l in enumerate(lines):
        m = l.find('"ev":"')
        k = l[m + 6:l.find('"', m + 6)] if m >= 0 else "?"
        by_kind.setdefault(k, []).append(i)
    unreferenced = set()
    for k in sorted(by_kind):
        sample = [json.loads(lines[li]) for li in rng.sample(by_kind[k], min(40, len(by_kind[k])))]
        fields = set()
        for e_ in sample:
            fields |= set(e_.keys())
        unreferenced |= {f for f in fields if f not in referenced and f != "ev"}
        for f in sorted((fields & referenced) - {"ev"} - desc):
            cand = [li for li in by_kind[k] if ('"%s":' % f) in lines[li]]
            rng.shuffle(cand)
            got = 0
            for li in cand[:200]:
                v_ = json.loads(lines[li]).get(f)
                if v_ in (0, "", [], None, False) and got < n - 1:
                    continue
                c = corrupt_line(lines[li], rng, f)
                if c:
                    trials.append((li,) + c)
                    got += 1
                if got >= n:
                    break
    if stateless is False and len(trials) > 60:
        trials = rng.sample(trials, 60)
    if max_trials and len(trials) > max_trials:
        trials = rng.sample(trials, max_trials)
    jf = judge_fn or (lambda lab, tr, exp: judge(lab, module, cfg, tr, env=env, expect_events=exp, heap=heap))
    results = []
    if stateless:
        from concurrent.futures import ThreadPoolExecutor
        def do_batch(b):
            out = []
            bt = trials[b:b + batch]
            pth = "%s.selftest%d" % (trace, b)
            with open(pth, "w") as f:
                for tr_ in bt:
                    f.write(tr_[1] + "\n")
            try:
                v = jf("%s-selftest%d" % (label, b), pth, len(bt))
                hit = {x["l"] for x in v["viols"]} | {x["l"] for x in v.get("drift", []) if isinstance(x, dict)}
                for i, tr_ in enumerate(bt):
                    out.append((tr_, (i + 1) in hit, ""))
            except Infra as ex:   # an evaluation error on a corrupted value: judged one by one
                for i, tr_ in enumerate(bt):
                    p1 = "%s.%d" % (pth, i)
                    open(p1, "w").write(tr_[1] + "\n")
                    try:
                        v = jf("%s-selftest%d-%d" % (label, b, i), p1, 1)
                        out.append((tr_, v["nviol"] > 0 or bool(v.get("drift")), ""))
                    except Infra as ex1:
                        out.append((tr_, True, "rejected by an evaluation error (shape of the value)"))
            return out
        with ThreadPoolExecutor(max_workers=max(2, NCPU // 3)) as ex:
            for o in ex.map(do_batch, range(0, len(trials), batch)):
                results += o
    else:
        from concurrent.futures import ThreadPoolExecutor
        def one(i_tr):
            i, tr_ = i_tr
            pth = "%s.selftest%d" % (trace, i)
            with open(pth, "w") as f:
                for j, l in enumerate(lines):
                    f.write((tr_[1] if j == tr_[0] else l) + "\n")
            try:
                v = jf("%s-selftest%d" % (label, i), pth, len(lines))
                d = v.get("drift")
                return (tr_, v["nviol"] > 0 or (d if isinstance(d, int) else len(d or [])) > 0, "")
            except Infra:
                return (tr_, True, "rejected by an evaluation error (shape of the value)")
        with ThreadPoolExecutor(max_workers=max(2, NCPU // 2)) as ex:
            results = list(ex.map(one, enumerate(trials)))
    table = {}
    for (li, _, kind, field, old, new), hit, note in results:
        t_ = table.setdefault("%s.%s" % (kind, field), {"trials": 0, "rejected": 0, "missed_examples": []})
        t_["trials"] += 1
        t_["rejected"] += 1 if hit else 0
        if not hit and len(t_["missed_examples"]) < 3:
            t_["missed_examples"].append({"line": li + 1, "old": old, "new": new})
    rej = sum(1 for r in results if r[1])
    log("[selftest] %s (%s): %d of %d single-value corruptions rejected" % (label, module, rej, len(results)))
    for k, t_ in sorted(table.items()):
        if t_["rejected"] == 0:
            log("[selftest]   NEVER REJECTED %s (%d trials), e.g. %s" % (k, t_["trials"], t_["missed_examples"][:1]))
    SELFTEST.append({"label": label, "module": module, "trials": len(results), "rejected": rej, "fields": table,
                     "fields_the_specification_does_not_read": sorted(unreferenced)})

def selftest_write(pid):
    if not SELFTEST:
        return
    d = os.path.join(VERIF, "evidence", "selftest")
    os.makedirs(d, exist_ok=True)
    json.dump({"property": pid, "seed": seed(), "what": "single-value corruptions of accepted traces, judged again by the trace specification",
               "runs": SELFTEST}, open(os.path.join(d, pid + ".json"), "w"), indent=1)
