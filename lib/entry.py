"""C04 (Verify accepts exactly the valid), C14 (untrusted bytes never crash), C16 (string wrappers)."""
import os, time
from common import *
import kit

def check_C04(tier):
    t0 = time.time()
    design = kit.run_design([("MCXmssVerify", "XmssVerify", 16)])
    tr, st, p = kit.drive("entrydrive", "C04", ["-prop", "C04", "-tier", tier])
    v = kit.judge("C04", "TraceVerify", "TraceVerify", tr, expect_events=st.get("events"))
    def known(ev, viol):
        # key a finding by what the failing call looks like, not by where it is in the trace
        if ev.get("class") == "junk" and ev.get("b0", 0) % 16 > 2:
            return "unsupported-hash-id-accepted"
        return None
    return kit.finish("C04", tier, t0, design, [v], known=known,
        extra_cov={"rule": "all single-bit flips of signature / public key / message of genuine signatures (h=4%s, 3 hash functions), all 256 values of both descriptor bytes, length changes, spliced foreign components, index fields, arbitrary-content triples of every length class for w in {4,16,256}" % (",6,8" if tier == "thorough" else "")},
        assumptions=["rejection of a flipped bit in hashed material rests on collision resistance of the hash",
                     "the symbolic part of XmssVerify.tla models each keyed hash as an injective constructor"])

def check_C14(tier):
    t0 = time.time()
    design = kit.run_design([("MCXmssVerify", "XmssVerify", 16)])
    classes = os.path.join(scratch(), "classes.json")
    r = tlc("GenClasses", "GenClasses", workers=1, env={"VERIF_CLASSES": classes})
    if not os.path.exists(classes):
        raise Infra("TLC did not write the input classes\n" + r.out[-2000:])
    wl = os.path.join(scratch(), "wordlist-bytes.json")
    tr, st, p = kit.drive("entrydrive", "C14", ["-prop", "C14", "-tier", tier, "-classes", classes, "-wordlist", wl])
    v = kit.judge("C14", "TraceEntry", "TraceEntry", tr, env={"VERIF_WORDLIST": wl}, expect_events=st.get("events"))
    import json
    ncls = len(json.load(open(classes))["xverify"])
    return kit.finish("C14", tier, t0, design, [v],
        extra_cov={"classes_generated_by_tlc": ncls,
                   "rule": "every abstract input class enumerated by EntryPoints.tla (3 w x 60 lengths x 10 first descriptor bytes x 19 second bytes) concretised with random / structured content; the whole descriptor space for the address functions; Dilithium hint-section corruptions; mnemonic strings of every count class and arbitrary bytes"},
        assumptions=["memory safety is observed through Go's bounds checks: an out-of-range access is a runtime.Error on the executed input",
                     "content inside a class is sampled (seeded)"])

def check_C16(tier):
    t0 = time.time()
    design = kit.run_design([("MCWrappers", "Wrappers", 8)])
    tr, st, p = kit.drive("entrydrive", "C16", ["-prop", "C16", "-tier", tier])
    v = kit.judge("C16", "TraceWrappers", "TraceKit", tr, expect_events=st.get("events"))
    def known(ev, viol):
        a = ev.get("args", [])
        pref = any(len(x) >= 2 and x[0] == 48 and x[1] == 120 for x in a)
        if ev.get("fn", "").startswith("x") and pref:
            return "xmssjs-0x-prefix"
        return None
    return kit.finish("C16", tier, t0, design, [v], known=known,
        extra_cov={"rule": "six pure wrappers x {valid, wrong message, flipped signature} x hex renderings {lower, upper} x {no prefix, 0x} and 13 malformed renderings per argument"},
        assumptions=["the js.Object based constructors and methods need a JavaScript runtime and are not covered",
                     "addresses are compared as bytes (dilithiumjs prepends 0x, xmssjs does not)"])
