"""C06 / C07: keys and signatures are the fixed function of their inputs that the scheme's
equations define; the hash primitive is a recorded, audited oracle (HashOracle.tla)."""
import os, time, json, re
from common import *
import kit

def oracle_env(label):
    sc = scratch()
    tool = build("hashtool", tags="verif")
    log_ = os.path.join(sc, label + ".oracle.log")
    if os.path.exists(log_):
        os.remove(log_)
    return {"VERIF_HASHTOOL": tool, "VERIF_ORACLE_REQ": os.path.join(sc, label + ".req.json"),
            "VERIF_ORACLE_RESP": os.path.join(sc, label + ".resp.json"), "VERIF_ORACLE_LOG": log_}, log_

def check_C06(tier):
    t0 = time.time()
    design = kit.run_design([("MCXmssVerify", "XmssVerify", 8)])
    table = os.path.join(scratch(), "C06.table.json")
    tr, st, p = kit.drive("eqdrive", "C06", ["-prop", "C06", "-tier", tier, "-table", table])
    env, olog = oracle_env("C06")
    env["VERIF_TABLE"] = table
    v = judge_sharded_oracle("C06", "TraceXmssEq", "TraceKit", tr, env, st.get("events"), shards=12, heavy=('"ev":"key"', '"ev":"sig"', '"ev":"sighead"'))
    fallbacks = sum(1 for _ in open(olog)) if os.path.exists(olog) else 0
    if st.get("rows_failing_audit") or fallbacks:
        log("MODEL-DRIFT property=C06: %s recorded hash rows failed the audit, %d hash inputs prescribed by the equations were never hashed by the library" %
            (st.get("rows_failing_audit"), fallbacks))
    return kit.finish("C06", tier, t0, design, [v],
        extra_cov={"hash_rows_recorded_and_audited": st.get("rows_audited"), "rows_failing_audit": st.get("rows_failing_audit"),
                   "table_rows_given_to_tlc": st.get("table_rows"), "oracle_fallbacks": fallbacks,
                   "rule": "seeded (seed, height, hash function): public key and signatures at seeded indices recomputed by TLC from XmssEq.tla over the audited hash table (quick: h=4, one hash function, two complete leaves, two signatures; thorough: all three hash functions, every leaf and every index at h=4, sampled leaves at h=6)"},
        assumptions=["hash primitives are trusted: crypto/sha256 and golang.org/x/crypto/sha3, called directly by the harness (audit) and by cmd/hashtool (fallback)",
                     "leaves not listed as complete enter the tree equations as the library computed them (VerifGenLeaf)"])

def check_C07(tier):
    t0 = time.time()
    sc = scratch()
    empty = os.path.join(sc, "empty.table.json")
    json.dump({"buckets": [[] for _ in range(16384)], "rows": 0}, open(empty, "w"))
    os.environ["VERIF_TABLE"] = empty          # MCDilithiumEq extends HashOracle (the table is not used by it)
    q = tier == "quick"
    design = kit.run_design([("MCDilithiumEq", "DilithiumEqNTT" + ("_quick" if q else ""), 16), ("DilithiumSign", "DilithiumSign", 4),
                             ("MCDilithiumMath", "DilMath_lemma_" + ("quick" if q else "full"), 8),
                             ("MCHintCodec", "HintCodec", 8)])
    table = os.path.join(sc, "C07.table.json")
    tr, st, p = kit.drive("eqdrive", "C07", ["-prop", "C07", "-tier", tier, "-table", table])
    env, olog = oracle_env("C07")
    env["VERIF_TABLE"] = table
    # one oracle scratch file pair per shard: the shard label is part of the file name
    v = judge_sharded_oracle("C07", "TraceDilithiumEq", "TraceDilithiumEq", tr, env, st.get("events"), shards=12)
    calls = sum(1 for _ in open(olog)) if os.path.exists(olog) else 0
    return kit.finish("C07", tier, t0, design, [v],
        extra_cov={"oracle_calls": calls, "iterations_histogram": st.get("iterations_histogram"),
                   "boundary_searches": {k: st.get(k) for k in ("keygen_caddq_boundary_seeds", "keygen_zero_in_transform_domain", "challenge_stream_bytes_used_max", "uniform_boundary_streams")},
                   "rule": "seeded (seed, message): key generation and signing recomputed by TLC from DilithiumEq.tla with SHAKE as an oracle (standard library in a helper process): COMPLETE: KeyGen_spec(seed) gives the public and secret key bytes; Sign_spec(sk, message) is run iteration by iteration (y, w = A y through the NTT-domain matrix, w1, c~ = H(mu || pack(w1)), c, z, the three exact norms, all hints), every iteration must leave through the logged exit and the accepted one must give the signature bytes; 1500+ loop events decide every exit from exact norms (tests met with equality are counted); repeated signing in other call orders; the six samplers on boundary streams"},
        assumptions=["SHAKE-128/256 are trusted (golang.org/x/crypto/sha3 called directly by cmd/hashtool)",
                     "inputs (seeds, messages) are sampled; every sampled key and signature is recomputed completely",
                     "the matrix A is sampled in the NTT domain as the Dilithium specification prescribes; NTT is defined by evaluation at the roots of X^256+1 and computed by a butterfly network proved equal to it on all unit vectors"])

def judge_sharded_oracle(label, module, cfg, trace, env, expect, shards, heavy=('"ev":"keygen"', '"ev":"sign"')):
    """like kit.judge(shards=...) but every shard gets its own oracle request/response files"""
    from concurrent.futures import ThreadPoolExecutor
    lines = open(trace).read().splitlines(True)
    n = len(lines)
    # heavy events first in their own shard: one event per shard for keygen / sign, the rest together
    hv = [i for i, l in enumerate(lines) if any(h in l[:40] for h in heavy)]
    light = [i for i in range(n) if i not in set(hv)]
    groups = [[i] for i in hv] + ([light] if light else [])
    def one(gi, pth=None, sub=""):
        idxs = groups[gi]
        if pth is None:
            pth = "%s.g%d" % (trace, gi)
            with open(pth, "w") as f:
                f.writelines(lines[i] for i in idxs)
        e = dict(env)
        # events of one key refer to that key's table (field "plan")
        m = re.search(r'"plan":(\d+)', lines[idxs[0]][-40:] + lines[idxs[0]][:4000])
        if m and os.path.exists(env["VERIF_TABLE"] + ".p" + m.group(1)) and len({re.search(r'"plan":(\d+)', lines[i][-40:] + lines[i][:4000]).group(1) for i in idxs if re.search(r'"plan":(\d+)', lines[i][-40:] + lines[i][:4000])}) == 1:
            e["VERIF_TABLE"] = env["VERIF_TABLE"] + ".p" + m.group(1)
        e["VERIF_ORACLE_REQ"] = env["VERIF_ORACLE_REQ"] + ".g%d%s" % (gi, sub)
        e["VERIF_ORACLE_RESP"] = env["VERIF_ORACLE_RESP"] + ".g%d%s" % (gi, sub)
        if sub:
            return kit.judge("%s-g%d%s" % (label, gi, sub), module, cfg, pth, env=e, heap="6g", timeout=3000, _inner=True)
        r = kit.judge("%s-g%d" % (label, gi), module, cfg, pth, env=e, expect_events=len(idxs), heap="6g", timeout=3000, _inner=len(idxs) == 1)
        return idxs, r
    with ThreadPoolExecutor(max_workers=min(len(groups), NCPU)) as ex:
        rs = list(ex.map(one, range(len(groups))))
    v = {"consumed": 0, "len": 0, "viols": [], "nviol": 0, "drift": [], "counts": {}, "tlc_states": 0, "tlc_generated": 0, "tlc_wall": 0.0}
    for idxs, r in rs:
        v["consumed"] += r["consumed"]; v["len"] += r["len"]; v["nviol"] += r["nviol"]
        v["viols"] += [dict(x, l=idxs[x["l"] - 1] + 1) for x in r["viols"]]
        for k, c in (r.get("counts") or {}).items():
            v["counts"][k] = v["counts"].get(k, 0) + c
        v["tlc_states"] += r["tlc_states"]; v["tlc_generated"] += r["tlc_generated"]; v["tlc_wall"] = max(v["tlc_wall"], r["tlc_wall"])
    if expect is not None and v["len"] != expect:
        raise Infra("trace %s not fully consumed" % label)
    v.update(label=label, trace=trace)
    log("[judge] %s: %d events in %d groups, %d violations (%.1fs TLC)" % (label, v["len"], len(groups), v["nviol"], v["tlc_wall"]))
    if os.environ.get("VERIF_SELFTEST") and not v["nviol"]:
        # heavy events (complete recomputations): one corruption per field of a few events, each judged alone
        # with the table of its own key
        import itertools
        ctr = itertools.count()
        for gi in [g for g in range(len(groups)) if len(groups[g]) == 1][:3]:
            pth = "%s.g%d" % (trace, gi)
            def jf(lab, p, exp, gi=gi):
                return one(gi, pth=p, sub=".st%d" % next(ctr))
            kit.selftest("%s-g%d" % (label, gi), module, cfg, pth, judge_fn=jf, batch=1, n=1, max_trials=6)
    return v
