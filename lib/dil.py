"""Dilithium properties: C03 (signatures verify), C05 (Verify is strict), C07, C12, C13."""
import os, time, json
from common import *
import kit

def check_C03(tier):
    t0 = time.time()
    q = tier == "quick"
    design = kit.run_design([("DilithiumSign", "DilithiumSign", 8),
                             ("MCDilithiumMath", "DilMath_lemma_" + ("quick" if q else "full"), 16)])
    tr, st, p = kit.drive("dildrive", "C03", ["-prop", "C03", "-tier", tier])
    v = kit.judge("C03", "TraceDilithiumSign", "TraceKit", tr, expect_events=st.get("events"))
    exits = st.get("exits", {})
    return kit.finish("C03", tier, t0, design, [v],
        extra_cov={"loop_exits_seen": exits, "iterations_histogram": st.get("iterations_histogram"),
                   "boundary_hits": st.get("boundary_hits"),
                   "unseen_exits": [k for k in ("1", "2", "3", "4") if k not in exits],
                   "rule": "seeded keys x messages of length 0, 1, 7, 135..137, 4096, random, 1 MiB; every loop iteration logged through the signing hook"},
        assumptions=["inputs are sampled; the data-dependent path through the rejection loop cannot be enumerated",
                     "the hint lemma is checked by TLC on boundary-focused operand sets, not on all (w, cs2, ct0)"])

def check_C05(tier):
    t0 = time.time()
    design = kit.run_design([("MCHintCodec", "HintCodec", 16), ("MCHintVec", "HintVec", 8)])
    tr, st, p = kit.drive("dildrive", "C05", ["-prop", "C05", "-tier", tier])
    v = kit.judge("C05", "TraceDilithiumVerify", "TraceDilithiumVerify", tr, expect_events=st.get("events"))
    return kit.finish("C05", tier, t0, design, [v],
        extra_cov={"hint_corruption_classes": st.get("hint_classes"), "skipping_signer_signatures": st.get("skipping_signer"),
                   "rule": "genuine signatures: " + ("every" if not q_(tier) else "c / hint-section / sampled z") + " single-bit flip of the signature, public-key bit flips, wrong message, other key; hint re-encodings denoting the same vector non-canonically; signatures from a signer that holds the secret key and skips the z-norm test"},
        assumptions=["rejection of flipped z / c / pk bits rests on SHAKE-256 being collision-free",
                     "signatures whose only defect is a skipped low-bits test have no specified verdict and are recorded only"])

def q_(tier):
    return tier == "quick"

def check_C12(tier):
    t0 = time.time()
    q = q_(tier)
    sfx = "quick" if q else "full"
    design = kit.run_design([("MCDilithiumMath", "DilMath_residues_" + sfx, 16), ("MCDilithiumMath", "DilMath_reduce32_" + sfx, 16),
                             ("MCDilithiumMath", "DilMath_hint_" + sfx, 16), ("MCDilithiumMath", "DilMath_lemma_" + sfx, 16)])
    apal = apalache_montgomery()
    apal32 = apalache_reduce32()
    tr, st, p = kit.drive("dildrive", "C12", ["-prop", "C12", "-tier", tier])
    v = kit.judge("C12", "TraceDilMath", "TraceKit", tr, expect_events=st.get("events"), shards=8)
    return kit.finish("C12", tier, t0, design, [v], exhaustive=True,
        extra_cov={"apalache_montgomery": apal, "apalache_reduce32": apal32,
                   "rule": "complete input/output tables of decompose, power2round, useHint(.,0/1), cAddQ, makeHint (16 high parts), polyChkNorm (5 bounds) and reduce32 (all 2^32-2^22 operands) computed from the real functions and compressed into affine segments, every segment decided at its ends and at every breakpoint of the definition; Montgomery and NTT on extreme and seeded operands; zetas table"},
        assumptions=["montgomeryReduce is proved for the TLA+ transcription over the whole 2^55 operand range (Apalache) and sampled on the code",
                     "reduce32's TLA+ transcription is proved over the whole int32 domain by Apalache and enumerated by TLC on a stride (thorough: 257, quick: 8191) plus block edges; the code's complete 2^32 table is validated against it segment by segment",
                     "NTT correctness is checked on structured and seeded polynomials plus the zetas table, not proved for all polynomials",
                     "reduce32: the reference comment's upper bound 6283007 is attained+1 (6283008) at a = 2^31-2^22-1; the specification uses 6283008"])

def apalache(module, inv="Inv", expect_error=False, domain=""):
    return kit.apalache(module, inv=inv, expect_error=expect_error, domain=domain)

def apalache_montgomery():
    return apalache("Montgomery", domain="-2^31*q <= a < 2^31*q")

def apalache_reduce32():
    return {"proved": apalache("Reduce32", domain="-2^31 <= a <= 2^31-2^22-1"),
            "control": apalache("Reduce32", inv="CommentBound", expect_error=True)}

def check_C13(tier):
    t0 = time.time()
    q = q_(tier)
    sfx = "quick" if q else "full"
    design = kit.run_design([("MCDilithiumPack", "DilPack_%s_%s" % (k, sfx), 16) for k in ("eta", "t1", "t0", "z", "w1")] +
                            [("MCHintCodec", "HintCodec", 16), ("MCHintVec", "HintVec", 8)])
    tr, st, p = kit.drive("dildrive", "C13", ["-prop", "C13", "-tier", tier])
    v = kit.judge("C13", "TraceDilPack", "TraceDilPack", tr, expect_events=st.get("events"), shards=16)
    return kit.finish("C13", tier, t0, design, [v],
        extra_cov={"rule": "per packer: extremes and one-hot values in every lane over four backgrounds, every coefficient position with each extreme, random polynomials, arbitrary byte strings re-packed; hint vectors of weight 0,1,2,74,75,76,80 in four shapes; genuine / z-randomised / hint-mutated signatures through unpackSig and packSig; key layouts"},
        assumptions=["the 20-bit z lane is enumerated on a stride (thorough: every 7th value plus the edges, both neighbour backgrounds; quick: coarser), the narrower packers completely; positions are covered by loop uniformity plus every position with both extremes",
                     "whole-signature re-encoding is compared on SHA-256 digests"])
