"""Dilithium properties: C03 (signatures verify), C05 (Verify is strict), C07, C12, C13."""
import os, time, json
from common import *
import kit

def check_C03(tier):
    t0 = time.time()
    q = tier == "quick"
    design = kit.run_design([("DilithiumSign", "DilithiumSign", 8),
                             ("MCDilithiumMath", "DilMath_lemma_" + ("quick" if q else "full"), 16)])
    tr, st, p = kit.drive("dildrive", "C03", ["-prop", "C03", "-tier", tier])
    v = kit.judge("C03", "TraceDilithiumSign", "TraceKit", tr, expect_events=st.get("events"))
    exits = st.get("exits", {})
    return kit.finish("C03", tier, t0, design, [v],
        extra_cov={"loop_exits_seen": exits, "iterations_histogram": st.get("iterations_histogram"),
                   "boundary_hits": st.get("boundary_hits"),
                   "unseen_exits": [k for k in ("1", "2", "3", "4") if k not in exits],
                   "rule": "seeded keys x messages of length 0, 1, 7, 135..137, 4096, random, 1 MiB; every loop iteration logged through the signing hook"},
        assumptions=["inputs are sampled; the data-dependent path through the rejection loop cannot be enumerated",
                     "the hint lemma is checked by TLC on boundary-focused operand sets, not on all (w, cs2, ct0)"])

def check_C05(tier):
    t0 = time.time()
    design = kit.run_design([("MCHintCodec", "HintCodec", 16), ("MCHintVec", "HintVec", 8)])
    tr, st, p = kit.drive("dildrive", "C05", ["-prop", "C05", "-tier", tier])
    v = kit.judge("C05", "TraceDilithiumVerify", "TraceDilithiumVerify", tr, expect_events=st.get("events"))
    return kit.finish("C05", tier, t0, design, [v],
        extra_cov={"hint_corruption_classes": st.get("hint_classes"), "skipping_signer_signatures": st.get("skipping_signer"),
                   "rule": "genuine signatures: " + ("every" if not q_(tier) else "c / hint-section / sampled z") + " single-bit flip of the signature, public-key bit flips, wrong message, other key; hint re-encodings denoting the same vector non-canonically; signatures from a signer that holds the secret key and skips the z-norm test"},
        assumptions=["rejection of flipped z / c / pk bits rests on SHAKE-256 being collision-free",
                     "signatures whose only defect is a skipped low-bits test have no specified verdict and are recorded only"])

def q_(tier):
    return tier == "quick"
