"""C09 (wallet recovery), C10 (mnemonic codec), C11 (descriptors and addresses)."""
import os, time
from common import *
import kit

def check_C10(tier):
    t0 = time.time()
    q = tier == "quick"
    runs = [("MCMnemonic", "Mnemonic_B3_full", 4), ("MCMnemonic", "Mnemonic_B6_full", 8),
            ("MCMnemonic", "Mnemonic_B48_" + ("quick" if q else "full"), 16),
            ("MCMnemonic", "Mnemonic_B51_" + ("quick" if q else "full"), 16),
            ("MCMnemonicBlock", "MnemonicBlock_" + ("quick" if q else "full"), 16)]
    design = kit.run_design(runs)
    wl = os.path.join(scratch(), "wordlist.json")
    tr, st, p = kit.drive("codecdrive", "C10", ["-prop", "C10", "-tier", tier, "-wordlist", wl])
    v = kit.judge("C10", "TraceMnemonic", "TraceMnemonic", tr, env={"VERIF_WORDLIST": wl, "VERIF_BLOCKSTRIDE": "1" if not q else "97"},
                  expect_events=st.get("events"), workers=1)
    return kit.finish("C10", tier, t0, design, [v], exhaustive=not q,
        extra_cov={"rule": "every 12-bit value at every word position of 32- and 34-word phrases (Latin-square phrases), malformed-phrase classes, "
                           + ("all 2^24 three-byte blocks of the length-generic codec" if not q else "word list facts")},
        assumptions=["the dumped word list is qrl.WordList of the working tree (dumped by the harness at run time)"])

def check_C11(tier):
    t0 = time.time()
    design = kit.run_design([("MCAddress", "Address", 8)])
    tr, st, p = kit.drive("codecdrive", "C11", ["-prop", "C11", "-tier", tier])
    v = kit.judge("C11", "TraceAddress", "TraceKit", tr, expect_events=st.get("events"))
    return kit.finish("C11", tier, t0, design, [v],
        assumptions=["SHAKE-256 and SHA-256 digests in the trace are computed by the harness with golang.org/x/crypto/sha3 and crypto/sha256 directly",
                     "public keys are a seeded sample (their bytes only flow into the hash); the descriptor space is enumerated completely"])

def check_C09(tier):
    t0 = time.time()
    design = kit.run_design([("MCWallet", "Wallet_H4", 8), ("MCAddress", "Address", 8),
                             ("MCMnemonic", "Mnemonic_B51_quick", 16), ("MCMnemonic", "Mnemonic_B48_quick", 16)])
    wl = os.path.join(scratch(), "wordlist.json")
    tr, st, p = kit.drive("codecdrive", "C09", ["-prop", "C09", "-tier", tier, "-wordlist", wl])
    v = kit.judge("C09", "TraceRecover", "TraceKit", tr, env={"VERIF_WORDLIST": wl}, expect_events=st.get("events"))
    return kit.finish("C09", tier, t0, design, [v],
        assumptions=["seeds are a seeded sample (seed bytes only flow into SHAKE); heights above 8 are exercised on the export/parse path only",
                     "equality of keys and signatures is compared on SHA-256 digests computed by the harness"])
