"""Shared machinery of the /verif check driver: scratch space, harness build,
TLC runs, evidence files, verdict lines."""
import json, os, re, shutil, subprocess, sys, tempfile, time, atexit, glob

VERIF = os.path.dirname(os.path.dirname(os.path.abspath(__file__)))
REPO = os.environ.get("VERIF_REPO", "/repo")
SPEC = os.path.join(VERIF, "spec")
BUILD = os.path.join(VERIF, ".build")
BIN = os.path.join(BUILD, "bin")
JAR = "/opt/veriftools/tla/tla2tools.jar:/opt/veriftools/tla/CommunityModules-deps.jar"
NCPU = os.cpu_count() or 4

GOENV = dict(os.environ, GOFLAGS="-mod=mod", GOPROXY="off", GOSUMDB="off", GOTOOLCHAIN="local")

class LibraryCrash(Exception):
    """The driver process was killed by a panic (or fatal runtime error) in a goroutine that the LIBRARY started:
    no caller can recover from that. It is behaviour of the code under test, not of the harness (a panic on the
    driver's own goroutines is recovered and recorded by the driver, and anything else that kills it is exit 2)."""
    def __init__(self, text, args):
        Exception.__init__(self, text)
        self.cmd = args

class Infra(Exception):
    """The machinery failed (build, TLC crash, timeout, missing output): exit 2, never a violation."""

_scratch = None
def scratch():
    global _scratch
    if _scratch is None:
        base = os.environ.get("VERIF_SCRATCH", tempfile.gettempdir())
        _scratch = tempfile.mkdtemp(prefix="verif-", dir=base)
        atexit.register(lambda: shutil.rmtree(_scratch, ignore_errors=True))
    return _scratch

def seed():
    try:
        return int(os.environ.get("VERIF_SEED", "1"))
    except ValueError:
        return 1

def log(*a):
    print(*a, file=sys.stderr, flush=True)

# ---------------------------------------------------------------------------
_built = {}
def build(cmd, race=False, tags="verif"):
    """(Re)build harness command `cmd` against the repository's current working tree.
    The repository is /repo; VERIF_REPO selects another checkout (used to try seeded changes in a
    scratch worktree): the harness is then built from a scratch copy whose replace directive points
    there, so that nothing shared is touched."""
    key = (cmd, race)
    if key in _built:
        return _built[key]
    h = os.path.join(VERIF, "harness")
    bindir = BIN
    if REPO != "/repo":
        h2 = os.path.join(scratch(), "harness")
        if not os.path.exists(h2):
            shutil.copytree(h, h2)
            gomod = open(os.path.join(h2, "go.mod")).read()
            gomod = re.sub(r"replace github.com/theQRL/go-qrllib => .*\n", "replace github.com/theQRL/go-qrllib => %s\n" % REPO, gomod)
            open(os.path.join(h2, "go.mod"), "w").write(gomod)
        h = h2
        bindir = os.path.join(scratch(), "bin")
    os.makedirs(bindir, exist_ok=True)
    out = os.path.join(bindir, cmd + ("-race" if race else ""))
    shutil.copyfile(os.path.join(REPO, "go.sum"), os.path.join(h, "go.sum"))
    args = ["go", "build", "-tags", tags]
    if race:
        args.append("-race")
    args += ["-o", out, "./cmd/" + cmd]
    t0 = time.time()
    p = subprocess.run(args, cwd=h, env=GOENV, capture_output=True, text=True)
    if p.returncode != 0:
        raise Infra("harness build failed (%s):\n%s" % (cmd, p.stderr[-4000:]))
    log("[build] %s %.1fs" % (cmd, time.time() - t0))
    _built[key] = out
    return out

def run(args, timeout=3600, env=None, cwd=None, ok_codes=(0,)):
    t0 = time.time()
    try:
        p = subprocess.run(args, cwd=cwd, env=env, capture_output=True, text=True, timeout=timeout)
    except subprocess.TimeoutExpired:
        raise Infra("timeout after %ss: %s" % (timeout, " ".join(args)[:300]))
    if p.returncode not in ok_codes and ("panic:" in p.stderr or "fatal error:" in p.stderr) \
            and "created by github.com/theQRL/go-qrllib/" in p.stderr and "created by main." not in p.stderr.split("created by github.com/theQRL/go-qrllib/")[0][-1500:]:
        i = max(p.stderr.find("panic:"), 0)
        raise LibraryCrash(p.stderr[i:i + 3000], [str(a) for a in args])
    if p.returncode not in ok_codes:
        raise Infra("command failed rc=%s: %s\n%s\n%s" % (p.returncode, " ".join(args)[:300], p.stdout[-2000:], p.stderr[-4000:]))
    p.wall = time.time() - t0
    return p

# ---------------------------------------------------------------------------
_speccopy = None
def spec_dir():
    """TLC litters its working directory; run it in a scratch copy of spec/."""
    global _speccopy
    if _speccopy is None:
        _speccopy = os.path.join(scratch(), "spec")
        shutil.copytree(SPEC, _speccopy)
    return _speccopy

def ensure_cfg(name, text):
    """Write a generated config into the scratch copy of spec/cfg (static ones live in spec/cfg)."""
    p = os.path.join(spec_dir(), "cfg", name + ".cfg")
    with open(p, "w") as f:
        f.write(text)
    return name

class TLCResult:
    def __init__(self):
        self.generated = 0; self.distinct = 0; self.ok = False; self.out = ""; self.wall = 0.0
        self.violated = None; self.error = None; self.coverage_zero = []

def tlc(module, cfg, workers=None, env=None, timeout=1800, simulate=None, depth=None, seed_=None,
        xss="64m", heap=None, coverage=False, extra=()):
    """Run TLC on spec/<module>.tla with spec/cfg/<cfg>.cfg. Returns TLCResult.
    Invariant/property violations are returned (ok=False, violated=name), everything else
    that is not a clean finish raises Infra."""
    sd = spec_dir()
    meta = tempfile.mkdtemp(prefix="tlcmeta-", dir=scratch())
    jtmp = os.path.join(scratch(), "jtmp")          # TLC unpacks its standard modules into java.io.tmpdir on every run:
    os.makedirs(jtmp, exist_ok=True)                # keep that inside the check's scratch directory (removed on exit)
    args = ["java", "-Xss" + xss, "-XX:+UseParallelGC", "-Djava.io.tmpdir=" + jtmp]
    if heap:
        args.append("-Xmx" + heap)
    args += ["-cp", JAR, "tlc2.TLC", "-metadir", meta, "-workers", str(workers or min(NCPU, 16)),
             "-config", os.path.join("cfg", cfg + ".cfg")]
    if simulate:
        args += ["-simulate", simulate]
    if depth:
        args += ["-depth", str(depth)]
    if seed_ is not None:
        args += ["-seed", str(seed_)]
    if coverage:
        args += ["-coverage", "1"]
    args += list(extra) + [module + ".tla"]
    e = dict(os.environ)
    e.pop("JAVA_TOOL_OPTIONS", None)
    if env:
        e.update(env)
    t0 = time.time()
    try:
        p = subprocess.run(args, cwd=sd, env=e, capture_output=True, text=True, timeout=timeout)
    except subprocess.TimeoutExpired:
        shutil.rmtree(meta, ignore_errors=True)
        raise Infra("TLC timeout after %ss on %s/%s" % (timeout, module, cfg))
    shutil.rmtree(meta, ignore_errors=True)
    r = TLCResult()
    r.out = p.stdout + p.stderr
    r.wall = time.time() - t0
    m = re.findall(r"(\d[\d,]*) states generated, (\d[\d,]*) distinct states found", r.out)
    if m:
        r.generated = int(m[-1][0].replace(",", "")); r.distinct = int(m[-1][1].replace(",", ""))
    if simulate:
        m = re.search(r"The number of states generated: (\d+)", r.out)
        if m:
            r.generated = r.distinct = int(m.group(1))
    m = re.search(r"Invariant (\S+) is violated", r.out) or re.search(r"Action property (\S+) is violated", r.out) \
        or re.search(r"Temporal properties were violated", r.out)
    if m:
        r.violated = m.group(1) if m.groups() else "temporal"
    elif "Model checking completed. No error has been found." in r.out or \
         (simulate and re.search(r"Finished in|The number of states generated", r.out) and "Error:" not in r.out):
        r.ok = True
    else:
        r.error = r.out[-3000:]
        raise Infra("TLC did not finish cleanly on %s/%s:\n%s" % (module, cfg, r.error))
    log("[tlc] %s/%s: %d generated, %d distinct, %.1fs%s" % (module, cfg, r.generated, r.distinct, r.wall,
        "" if r.ok else " VIOLATED " + str(r.violated)))
    return r

# ---------------------------------------------------------------------------
def write_evidence(pid, tier, level, coverage, wall, violations, assumptions=()):
    ev = {"property_id": pid, "tier": tier, "seed": seed(), "level": level, "coverage": coverage,
          "assumptions": list(assumptions), "wall_s": round(wall, 2), "violations": int(violations)}
    evdir = os.path.join(VERIF, "evidence")
    if REPO != "/repo":      # a trial against another checkout must not overwrite the evidence of /repo
        evdir = os.environ.get("VERIF_EVIDENCE_DIR", os.path.join(tempfile.gettempdir(), "verif-trial-evidence"))
    os.makedirs(evdir, exist_ok=True)
    p = os.path.join(evdir, pid + ".json")
    tmp = p + ".tmp"
    with open(tmp, "w") as f:
        json.dump(ev, f, indent=1, sort_keys=True)
        f.write("\n")
    os.replace(tmp, p)
    return p

def write_replay(pid, name, obj):
    d = os.path.join(VERIF, "replays", pid)
    os.makedirs(d, exist_ok=True)
    p = os.path.join(d, name)
    with open(p, "w") as f:
        json.dump(obj, f, indent=1)
        f.write("\n")
    return p

def known_findings():
    """known_findings.txt: lines 'finding: property=<id> key=<key> <text>' and 'fixed: property=<id> <commit> <text>'."""
    out = []
    p = os.path.join(VERIF, "known_findings.txt")
    if os.path.exists(p):
        for line in open(p):
            line = line.strip()
            m = re.match(r"finding:\s+property=(\S+)\s+key=(\S+)\s+(.*)", line)
            if m:
                out.append({"property": m.group(1), "key": m.group(2), "text": m.group(3)})
    return out

def read_ndjson(path):
    with open(path) as f:
        return [json.loads(l) for l in f if l.strip()]
