---------------------------- MODULE XmssKeyOps ----------------------------
(***************************************************************************)
(* The public calls of one xmss.XMSS object as functions of the pre-state  *)
(* (index, BDS state).  No variables: XmssKey.tla turns them into actions, *)
(* Wallet.tla uses them for several objects of one seed, and the trace     *)
(* specifications apply them to states recorded from the real code.        *)
(***************************************************************************)
EXTENDS Bds

NoSig == [idx |-> -1, auth |-> <<>>]

OK           == "ok"
TOOHIGH      == "refused:index too high"
REWIND       == "refused:cannot rewind"


---------------------------------------------------------------------------
(* the two copies of the traversal step *)

\* xmss.go:476-479 (inside xmssFastSignMessage)
SignAdvance(b, i) == IF i < N - 1 THEN Advance(b, i) ELSE b

\* xmss_fast.go:243-250 (inside xmssFastUpdate): for j = currentIdx; j < newIdx; j++
JumpAdvance(b, from, to) ==
  FoldLeft(LAMBDA acc, j : Advance(acc, j), b, FromTo(from, to))

---------------------------------------------------------------------------
(* results of the public calls as functions of the pre-state; used by the  *)
(* actions below and by the trace specification                            *)

SetIndexResult(i, b, j) ==
  IF j >= N THEN [outcome |-> TOOHIGH, idx |-> i, bds |-> b]
  ELSE IF j < i THEN [outcome |-> REWIND, idx |-> i, bds |-> b]
  ELSE [outcome |-> OK, idx |-> j, bds |-> JumpAdvance(b, i, j)]

SignResult(i, b) ==
  LET g == SetIndexResult(i, b, i)          \* Sign begins with SetIndex(GetIndex())
  IN IF g.outcome # OK
     THEN [outcome |-> g.outcome, idx |-> i, bds |-> b, emitted |-> NoSig]
     ELSE [outcome |-> OK, idx |-> i + 1, bds |-> SignAdvance(g.bds, i),
           emitted |-> [idx |-> i, auth |-> g.bds.auth]]

=============================================================================
