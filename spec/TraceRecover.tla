---------------------------- MODULE TraceRecover ----------------------------
(***************************************************************************)
(* Trace validation for wallet recovery (C09): a key is created (from a    *)
(* seed or from fresh randomness), every secret it exports is taken        *)
(* (extended seed, mnemonic, hex seed; Dilithium: seed, hex seed,          *)
(* mnemonic), a second key is created from it through the corresponding    *)
(* constructor, and the two keys' public key, address, secret key, seed    *)
(* and signatures (at index 0 and after a jump; Dilithium: detached and    *)
(* sealed) are logged as digests.  The specification requires them equal,  *)
(* and the exported secrets to have the specified layout:                  *)
(* extended seed = Descriptor!Encode(hf, XMSS, h, 0) || seed, mnemonic =   *)
(* Mnemonic!Enc of it, hex seed = "0x" || lower-case hex.                  *)
(***************************************************************************)
EXTENDS Descriptor, Mnemonic, IOUtils, TLC, Json

Trace == ndJsonDeserialize(IOEnv.VERIF_TRACE)
ResultPath == IOEnv.VERIF_RESULT
WordList == JsonDeserialize(IOEnv.VERIF_WORDLIST)

When(c, s) == IF c THEN <<s>> ELSE <<>>

HexDigit(n) == IF n < 10 THEN 48 + n ELSE 87 + n          \* '0'..'9', 'a'..'f'
HexOf(bytes) == <<48, 120>> \o FoldLeft(LAMBDA acc, b : acc \o <<HexDigit(b \div 16), HexDigit(b % 16)>>, <<>>, bytes)

SameIdentity(e) ==
  When(e.pk1 # e.pk0, "re-created key has a different public key")
  \o When(e.addr1 # e.addr0, "re-created key has a different address")
  \o When(e.sk1 # e.sk0, "re-created key has a different secret key")
  \o When(e.seed1 # e.seed0, "re-created key reports a different seed")
  \o When(e.sig1 # e.sig0, "re-created key signs differently")
  \o When(e.sigj1 # e.sigj0, "re-created key signs differently (after a jump / sealed form)")

JudgeXmss(e) ==
  IF e.res # "ok" THEN <<"re-creating the key from its exported secret was refused">>
  ELSE SameIdentity(e)
       \o When(e.ext # Encode(e.hf, XMSSSig, e.h, SHA256_2X) \o e.seed, "extended seed is not descriptor || seed")
       \o When(e.mn # Render(Enc(e.ext), WordList), "mnemonic is not the encoding of the extended seed")
       \o When(e.hex # HexOf(e.ext), "hex seed is not 0x || hex(extended seed)")

JudgeDescPath(e) ==
  IF ~KeyHeightOK(e.h) THEN <<>>   \* heights no key exists for: nothing is claimed
  ELSE When(e.res # "ok", "mnemonic of an extended seed was refused")
       \o When(<<e.deschf, e.descs, e.desch, e.desca>> # <<e.hf, XMSSSig, e.h, SHA256_2X>>,
               "descriptor recovered from the exported secret names other parameters")
       \o When(e.ext # Encode(e.hf, XMSSSig, e.h, SHA256_2X) \o e.seed, "extended seed changed on the way through the mnemonic")

JudgeDilithium(e) ==
  IF e.res # "ok" THEN <<"re-creating the Dilithium key from its exported secret was refused">>
  ELSE SameIdentity(e)
       \o When(e.mn # Render(Enc(e.seed), WordList), "mnemonic is not the encoding of the seed")
       \o When(e.hex # HexOf(e.seed), "hex seed is not 0x || hex(seed)")

\* original and re-created object alive in one process, signing alternately (taller trees)
JudgeTall(e) ==
  IF e.res # "ok" THEN <<"re-creating the key from its exported secret was refused">>
  ELSE When(e.pk1 # e.pk0, "re-created key has a different public key")
       \o When(e.sigs1 # e.sigs0, "original and re-created key sign differently when both are used in one process")

Judge(e) ==
  CASE e.ev = "recovertall" -> JudgeTall(e)
    [] e.ev = "recover" /\ e.scheme = "xmss" -> JudgeXmss(e)
    [] e.ev = "recover" /\ e.scheme = "dilithium" -> JudgeDilithium(e)
    [] e.ev = "descpath" -> JudgeDescPath(e)
    [] OTHER -> <<"unknown event">>
DriftOf(e) == <<>>

VARIABLES l, viols, nviol, drift, counts, done
K == INSTANCE TraceKit WITH Judge <- Judge, Drift <- DriftOf
Spec == K!Spec
View == K!View
=============================================================================
