----------------------------- MODULE TraceVerify -----------------------------
(***************************************************************************)
(* Trace validation of xmss.Verify / VerifyWithCustomWOTSParamW (C04).     *)
(*                                                                         *)
(* Events are calls on (message, signature, public key) triples derived    *)
(* from genuine signatures of real keys: the unmodified triple, every      *)
(* single-bit flip of signature, public key and message (one event per     *)
(* byte, eight outcomes), every value of the two descriptor bytes, length  *)
(* changes, components spliced in from other keys / indices / heights,     *)
(* other index fields, and arbitrary-content triples of every length       *)
(* class.  The specification decides for each call whether it may be       *)
(* accepted: the guard cascade of XmssVerify.tla on (length, w, descriptor *)
(* bytes) must let it through, and nothing the scheme interprets may       *)
(* differ from the genuine triple (XmssVerify!AcceptIffUnmodified: the     *)
(* address-format nibble and the third descriptor byte are not             *)
(* interpreted).  Accepting anything else, or rejecting a triple that must *)
(* verify, is a violation.                                                 *)
(***************************************************************************)
EXTENDS XmssVerify, IOUtils, Json

Trace == ndJsonDeserialize(IOEnv.VERIF_TRACE)
ResultPath == IOEnv.VERIF_RESULT

When(c, s) == IF c THEN <<s>> ELSE <<>>

\* may a call be accepted?  bodyTouched: message, signature bytes or pk[3..66] differ
MayAccept(e, b0, b1, sigLen, bodyTouched) ==
  LET c == Cascade(sigLen, e.w, b0, b1)
  IN /\ c.kind = "continue"
     /\ e.genuine
     /\ ~bodyTouched
     /\ e.w = 16              \* the genuine signatures were made with w = 16
     /\ c.h = e.h
     /\ c.hf = e.basehf

OutKind(out) == IF out = "true" THEN "accepted" ELSE IF out = "false" THEN "rejected" ELSE "refused"

Verdict(e, out, may) ==
  When(out = "true" /\ ~may, "accepted a triple the scheme does not define as valid")
  \o When(out # "true" /\ may, "rejected a genuine triple whose interpreted parts are unmodified")

JudgeCase(e) == Verdict(e, e.out, MayAccept(e, e.b0, e.b1, e.siglen, FALSE))

FlipBit(b, k) == IF (b \div 2^k) % 2 = 0 THEN b + 2^k ELSE b - 2^k

JudgeFlip(e) ==
  LET per(k) ==   \* bit k (0 = least significant) of byte e.off of e.target flipped
        LET b0 == IF e.target = "pk" /\ e.off = 0 THEN FlipBit(e.b0, k) ELSE e.b0
            b1 == IF e.target = "pk" /\ e.off = 1 THEN FlipBit(e.b1, k) ELSE e.b1
            body == e.target \in {"sig", "msg"} \/ (e.target = "pk" /\ e.off >= 3)
        IN Verdict(e, e.outs[k + 1], MayAccept(e, b0, b1, e.siglen, body))
  IN per(0) \o per(1) \o per(2) \o per(3) \o per(4) \o per(5) \o per(6) \o per(7)

Judge(e) ==
  (CASE e.ev = "case" -> JudgeCase(e)
     [] e.ev = "flip" -> JudgeFlip(e)
     [] OTHER -> <<"unknown event">>)
  \o When(~e.intact, "a verification call modified the caller's buffers")

\* not part of C04's statement: the kind of non-acceptance (false vs refusal) the cascade predicts,
\* and Verify == VerifyWithCustomWOTSParamW(16) (C06)
DriftOf(e) ==
  (IF e.ev = "case" THEN
     LET c == Cascade(e.siglen, e.w, e.b0, e.b1)
         exp == IF c.kind = "refused" THEN "refused" ELSE IF c.kind = "value" THEN "rejected" ELSE OutKind(e.out)
     IN When(OutKind(e.out) # exp, "kind of non-acceptance differs from the cascade of XmssVerify.tla")
   ELSE <<>>)
  \o When(~e.same16, "Verify and VerifyWithCustomWOTSParamW(w=16) disagree")

VARIABLES l, viols, nviol, drift, counts, done
K == INSTANCE TraceKit WITH Judge <- Judge, Drift <- DriftOf
Spec == K!Spec
View == K!View
=============================================================================
