---------------------------- MODULE DilithiumSign ----------------------------
(***************************************************************************)
(* The signing loop of go-qrllib's Dilithium (dilithium/sign.go:78-190,    *)
(* cryptoSignSignature) as a program-counter machine, and the object-level *)
(* operations built on it (dilithium.go: Sign, Seal, Verify, Open,         *)
(* ExtractSignature, ExtractMessage).                                      *)
(*                                                                         *)
(* One loop iteration samples y with nonce numbers L*nonce .. L*nonce+L-1, *)
(* increments nonce, computes the candidate and leaves through the FIRST   *)
(* failing test in code order:                                             *)
(*   exit 1  ||z||       >= GAMMA1 - BETA                                  *)
(*   exit 2  ||w0 - cs2||>= GAMMA2 - BETA                                  *)
(*   exit 3  ||ct0||     >= GAMMA2                                         *)
(*   exit 4  #hints      >  OMEGA                                          *)
(*   exit 0  accept: pack (c, z, h)                                        *)
(* The candidate's four scalars are chosen by the environment (they are    *)
(* data dependent); the machine is what the code does with them.           *)
(***************************************************************************)
EXTENDS DilithiumMath, FiniteSets

CONSTANTS MaxIter            \* bound on loop iterations explored by TLC

VARIABLES pc, nonce, cand, exits, accepted

svars == <<pc, nonce, cand, exits, accepted>>

\* abstract values for the scalars: below the bound, the last accepted value, the bound, above
ZVals    == {0, GAMMA1 - BETA - 1, GAMMA1 - BETA, GAMMA1}
W0Vals   == {0, GAMMA2 - BETA - 1, GAMMA2 - BETA, GAMMA2}
Ct0Vals  == {0, GAMMA2 - 1, GAMMA2, GAMMA2 + 1}
HintVals == {0, OMEGA, OMEGA + 1}

Cand == [maxz : ZVals, maxw0 : W0Vals, maxct0 : Ct0Vals, hints : HintVals]

\* the exit the code takes for a candidate (first failing test in code order)
ExitOf(c) ==
  IF c.maxz >= GAMMA1 - BETA THEN 1
  ELSE IF c.maxw0 >= GAMMA2 - BETA THEN 2
  ELSE IF c.maxct0 >= GAMMA2 THEN 3
  ELSE IF c.hints > OMEGA THEN 4
  ELSE 0

\* nonces used for the L polynomials of y in iteration number it (0-based)
YNonces(it) == {LL * it + i : i \in 0..(LL - 1)}

Init == /\ pc = "sample"
        /\ nonce = 0
        /\ cand = [maxz |-> 0, maxw0 |-> 0, maxct0 |-> 0, hints |-> 0]
        /\ exits = <<>>
        /\ accepted = FALSE

Sample ==                       \* rej: polyVecLUniformGamma1(&y, rhoPrime, nonce); nonce++
  /\ pc = "sample" /\ Len(exits) < MaxIter
  /\ \E c \in Cand : cand' = c
  /\ nonce' = nonce + 1
  /\ pc' = "test"
  /\ UNCHANGED <<exits, accepted>>

Test ==
  /\ pc = "test"
  /\ exits' = Append(exits, ExitOf(cand))
  /\ IF ExitOf(cand) = 0 THEN pc' = "packed" /\ accepted' = TRUE
                         ELSE pc' = "sample" /\ accepted' = FALSE      \* goto rej
  /\ UNCHANGED <<nonce, cand>>

Next == Sample \/ Test
Spec == Init /\ [][Next]_svars /\ WF_svars(Next)

---------------------------------------------------------------------------
\* what the verifier requires of a signature (DilithiumVerify.tla) in terms of the candidate:
\* ||z|| < GAMMA1 - BETA, at most OMEGA hints, and the high bits recomputed with the hints
\* equal w1, for which the hint lemma (MCDilithiumMath!HintLemma) needs the two low-bit bounds
VerifierAccepts(c) ==
  /\ c.maxz < GAMMA1 - BETA
  /\ c.hints <= OMEGA
  /\ c.maxw0 < GAMMA2 - BETA /\ c.maxct0 < GAMMA2

AcceptedVerifies == accepted => VerifierAccepts(cand)

\* nonce counts iterations: every rejection consumes one block of L nonces, never reused
NonceCountsIterations == nonce = Len(exits) + (IF pc = "test" THEN 1 ELSE 0)
RejectionsBeforeAccept == \A i \in 1..Len(exits) : (exits[i] = 0) => (i = Len(exits))
FreshNonces == \A i, j \in 0..MaxIter : i # j => YNonces(i) \cap YNonces(j) = {}

\* the loop cannot stop anywhere else than in "packed"
OnlyAcceptStops == (pc = "packed") <=> accepted
=============================================================================
