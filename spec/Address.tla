------------------------------ MODULE Address ------------------------------
(***************************************************************************)
(* Address derivation and validation (xmss/xmss.go:567-646,                *)
(* dilithium/dilithium.go:137-169), concrete on bytes.  Digests enter as   *)
(* values supplied by an oracle (SHAKE-256 / SHA-256 of the stated input). *)
(***************************************************************************)
EXTENDS Descriptor

Value(v)  == [kind |-> "value", v |-> v]
Refuse(m) == [kind |-> "refused", msg |-> m]

DescOfPK(pk) == Decode(SubSeq(pk, 1, 3))
ReEncoded(d) == Encode(d.hf, d.sig, d.height, d.af)

\* GetXMSSAddressFromPK: descriptor (re-encoded: third byte 0) then the last 17 digest bytes
XmssAddr(pk, shake256OfPk) ==
  LET d == DescOfPK(pk)
  IN IF d.af # SHA256_2X THEN Refuse("Address format type not supported")
     ELSE Value(ReEncoded(d) \o SubSeq(shake256OfPk, 16, 32))

\* GetDilithiumAddressFromPK: one descriptor byte then the last 19 digest bytes
DilAddr(shake256OfPk) == <<DilithiumDescriptorByte>> \o SubSeq(shake256OfPk, 14, 32)

\* GetLegacyXMSSAddressFromPK: desc || SHA256(pk) || last 4 bytes of SHA256(first 35 bytes)
LegacyAddr(pk, sha256OfPk, sha256OfFirst35) ==
  LET d == DescOfPK(pk)
  IN IF d.af # SHA256_2X THEN Refuse("Address format type not supported")
     ELSE Value(ReEncoded(d) \o sha256OfPk \o SubSeq(sha256OfFirst35, 29, 32))

IsValidXMSS(a) == IsValidXMSSAddr(a[1], a[2])
IsValidDilithium(a) == IsValidDilithiumAddr(a[1])
IsValidLegacy(a, sha256OfFirst35) ==
  /\ Decode(SubSeq(a, 1, 3)).af = SHA256_2X
  /\ SubSeq(a, 36, 39) = SubSeq(sha256OfFirst35, 29, 32)
=============================================================================
