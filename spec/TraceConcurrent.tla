---------------------------- MODULE TraceConcurrent ----------------------------
(***************************************************************************)
(* Trace validation for concurrent use (C15).  The driver first runs every *)
(* call of a seeded workload alone ("seq" events: the sequential oracle),  *)
(* then runs the workload on N goroutines (race detector on), each         *)
(* goroutine logging call/return events with its own sequence number into  *)
(* its own buffer.  A history is accepted iff                              *)
(*   - per goroutine, events alternate call / return with consecutive      *)
(*     numbers (the per-goroutine order is the logged number; no global    *)
(*     order is needed because the operations are stateless),              *)
(*   - every return carries the result the same call gave when run alone   *)
(*     (Concurrent!HistoryFree); operations on a goroutine's private XMSS  *)
(*     key are compared with the same operation sequence run alone on an   *)
(*     identically seeded key; their signature indices strictly increase   *)
(*   - the race detector reported nothing ("race" events).                 *)
(***************************************************************************)
EXTENDS Integers, Sequences, IOUtils, Json, TLC

Trace == ndJsonDeserialize(IOEnv.VERIF_TRACE)
ResultPath == IOEnv.VERIF_RESULT

VARIABLES l, oracle, nextn, open, signed, viols, nviol, counts, done
tvars == <<l, oracle, nextn, open, signed, viols, nviol, counts, done>>

When(c, s) == IF c THEN <<s>> ELSE <<>>
MaxViols == 60

Init == /\ l = 1 /\ oracle = <<>> /\ nextn = <<>> /\ open = <<>> /\ signed = <<>>
        /\ viols = <<>> /\ nviol = 0 /\ counts = <<>> /\ done = FALSE

Get(f, k, d) == IF k \in DOMAIN f THEN f[k] ELSE d
Put(f, k, v) == (k :> v) @@ f

Step ==
  /\ l <= Len(Trace) /\ ~done
  /\ LET e == Trace[l]
         j == CASE e.ev = "seq" -> When(e.op \in DOMAIN oracle /\ oracle[e.op] # e.res, "the same call gave two results when run alone twice")
                [] e.ev = "round" -> <<>>
                [] e.ev = "call" -> When(Get(open, e.g, "") # "", "call logged while another call of the goroutine is open (harness)")
                                     \o When(e.n # Get(nextn, e.g, 1), "per-goroutine sequence number out of order (harness)")
                [] e.ev = "ret" ->
                     When(Get(open, e.g, "") # e.op \/ e.n # Get(nextn, e.g, 1), "return does not match the goroutine's open call (harness)")
                     \o When(e.op \notin DOMAIN oracle, "no sequential result recorded for this call (harness)")
                     \o When(e.op \in DOMAIN oracle /\ oracle[e.op] # e.res,
                             "a call returned something else than it returns when run alone")
                     \o When(e.sigidx >= 0 /\ e.sigidx < Get(signed, e.g, 0),
                             "a goroutine's private XMSS key reused or rewound an index")
                [] e.ev = "race" -> <<"the race detector reported a data race">>
                [] OTHER -> <<"unknown event">>
     IN /\ oracle' = IF e.ev = "seq" /\ e.op \notin DOMAIN oracle THEN Put(oracle, e.op, e.res) ELSE oracle
        /\ open' = CASE e.ev = "call" -> Put(open, e.g, e.op) [] e.ev = "ret" -> Put(open, e.g, "") [] e.ev = "round" -> <<>> [] OTHER -> open
        /\ nextn' = CASE e.ev = "ret" -> Put(nextn, e.g, e.n + 1) [] e.ev = "round" -> <<>> [] OTHER -> nextn
        /\ signed' = CASE e.ev = "ret" /\ e.sigidx >= 0 -> Put(signed, e.g, e.sigidx + 1) [] e.ev = "round" -> <<>> [] OTHER -> signed
        /\ viols' = IF Len(viols) < MaxViols THEN viols \o [x \in 1..Len(j) |-> [l |-> l, what |-> j[x]]] ELSE viols
        /\ nviol' = nviol + Len(j)
        /\ counts' = IF e.ev \in DOMAIN counts THEN [counts EXCEPT ![e.ev] = @ + 1] ELSE (e.ev :> 1) @@ counts
  /\ l' = l + 1 /\ done' = FALSE

Finish ==
  /\ l = Len(Trace) + 1 /\ ~done /\ done' = TRUE
  /\ JsonSerialize(ResultPath, [consumed |-> l - 1, len |-> Len(Trace), viols |-> viols, nviol |-> nviol, drift |-> <<>>, counts |-> counts])
  /\ UNCHANGED <<l, oracle, nextn, open, signed, viols, nviol, counts>>

Next == Step \/ Finish
Spec == Init /\ [][Next]_tvars
View == <<l, done>>
=============================================================================
