---------------------------- MODULE DilithiumPack ----------------------------
(***************************************************************************)
(* Bit packing of Dilithium polynomials (dilithium/poly.go polyEtaPack ..   *)
(* polyW1Pack) stated once, generically: the i-th value occupies bits       *)
(* [i*w, (i+1)*w) of a little-endian bit stream.  Each packer of the        *)
(* library is PackBits(w, [i |-> offset - c[i]]) for a width and an offset. *)
(***************************************************************************)
EXTENDS Integers, Sequences

\* bit number pos of the stream of w-bit values vals (1-based sequence)
BitOfVals(vals, w, pos) == (vals[(pos \div w) + 1] \div 2^(pos % w)) % 2
\* bit number pos of a byte string
BitOfBytes(bytes, pos) == (bytes[(pos \div 8) + 1] \div 2^(pos % 8)) % 2

Sum8(f(_)) == f(0) + 2 * f(1) + 4 * f(2) + 8 * f(3) + 16 * f(4) + 32 * f(5) + 64 * f(6) + 128 * f(7)

PackBits(w, vals) ==
  [j \in 1..((Len(vals) * w) \div 8) |-> Sum8(LAMBDA k : BitOfVals(vals, w, 8 * (j - 1) + k))]

RECURSIVE SumBits(_, _, _, _)
SumBits(bytes, base, k, w) == IF k = w THEN 0 ELSE BitOfBytes(bytes, base + k) * 2^k + SumBits(bytes, base, k + 1, w)

UnpackBits(w, n, bytes) == [i \in 1..n |-> SumBits(bytes, (i - 1) * w, 0, w)]

\* the library's packers: kind -> (width, offset); value stored = offset - coefficient
\* (t1 and w1 store the coefficient itself: written as offset 0 and sign +1)
Width(kind)  == CASE kind = "eta" -> 3 [] kind = "t1" -> 10 [] kind = "t0" -> 13 [] kind = "z" -> 20 [] kind = "w1" -> 4
Offset(kind) == CASE kind = "eta" -> 2 [] kind = "t1" -> 0 [] kind = "t0" -> 4096 [] kind = "z" -> 524288 [] kind = "w1" -> 0
Negated(kind) == kind \in {"eta", "t0", "z"}

Stored(kind, c) == IF Negated(kind) THEN Offset(kind) - c ELSE c
Coeff(kind, v)  == IF Negated(kind) THEN Offset(kind) - v ELSE v

\* declared coefficient ranges
InRange(kind, c) ==
  CASE kind = "eta" -> c \in -2..2
    [] kind = "t1"  -> c \in 0..1023
    [] kind = "t0"  -> c \in -4095..4096
    [] kind = "z"   -> c \in -524287..524288
    [] kind = "w1"  -> c \in 0..15

PackPoly(kind, coeffs) == PackBits(Width(kind), [i \in 1..Len(coeffs) |-> Stored(kind, coeffs[i])])
UnpackPoly(kind, n, bytes) == LET v == UnpackBits(Width(kind), n, bytes) IN [i \in 1..n |-> Coeff(kind, v[i])]
=============================================================================
