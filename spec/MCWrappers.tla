------------------------------ MODULE MCWrappers ------------------------------
(* Design facts about Wrappers.tla: hex rendering (lower / upper case, with  *)
(* and without 0x) decodes back to the bytes, for every byte value at every  *)
(* position of a short string; every single non-hex character, and odd       *)
(* length, make the decode fail.                                             *)
EXTENDS Wrappers, TLC
VARIABLES b, pos, ch, phase
Init == b = 0 /\ pos = 1 /\ ch = 0 /\ phase = 0
Next == \/ phase = 0 /\ b' \in 0..255 /\ pos' \in 1..3 /\ phase' = 1 /\ UNCHANGED ch
        \/ phase = 1 /\ ch' \in 0..255 /\ phase' = 2 /\ UNCHANGED <<b, pos>>
Up(c) == IF c \in 97..102 THEN c - 32 ELSE c
Bytes == [i \in 1..3 |-> IF i = pos THEN b ELSE (17 * i) % 256]
Lower == <<HexDigit(Bytes[1] \div 16), HexDigit(Bytes[1] % 16), HexDigit(Bytes[2] \div 16), HexDigit(Bytes[2] % 16),
           HexDigit(Bytes[3] \div 16), HexDigit(Bytes[3] % 16)>>
Upper == [i \in 1..6 |-> Up(Lower[i])]
RoundTrip == phase >= 1 =>
  /\ Decoded(Lower) = Bytes /\ Decoded(Upper) = Bytes
  /\ Decoded(<<48, 120>> \o Lower) = Bytes /\ Decoded(<<48, 120>> \o Upper) = Bytes
  /\ Decoded(SubSeq(Lower, 1, 5)) = Invalid
  /\ Decoded(<<48, 88>> \o Lower) = Invalid          \* "0X" is not a prefix
  /\ Decoded(<<48, 120, 48, 120>> \o Lower) = Invalid
  /\ Sized(Bytes, 5) = Bytes \o <<0, 0>> /\ Sized(Bytes, 2) = SubSeq(Bytes, 1, 2) /\ Sized(Bytes, 0) = Bytes
NonHexRejected == phase = 2 =>
  LET s == [i \in 1..6 |-> IF i = 2 * pos THEN ch ELSE Lower[i]]
      looksLikePrefix == pos = 1 /\ ch = 120 /\ Lower[1] = 48      \* "0x" || four hex digits: the prefix rule wins
  IN IF looksLikePrefix THEN Decoded(s) = SubSeq(Bytes, 2, 3)
     ELSE (Decoded(s) = Invalid) <=> (ch \notin (48..57) \cup (97..102) \cup (65..70))
=============================================================================
