--------------------------- MODULE MCMnemonicBlock ---------------------------
(* One 3-byte block = two words, complete: all 2^24 values.  The codec works *)
(* block by block (a word never straddles a block border), so together with  *)
(* MCMnemonic (every value at every position) this covers the bijection.     *)
EXTENDS Mnemonic, TLC
CONSTANT Stride          \* 1 = all 2^24 blocks
VARIABLES w1, w2
Init == w1 \in 0..4095 /\ w2 \in {x \in 0..4095 : x % Stride = 0 \/ x = 4095}
Next == UNCHANGED <<w1, w2>>
BlockBijective ==
  LET bs == DecWords(<<w1, w2>>)
  IN /\ Len(bs) = 3
     /\ bs = << w1 \div 16, (w1 % 16) * 16 + w2 \div 256, w2 % 256 >>
     /\ Enc(bs) = <<w1, w2>>
=============================================================================
