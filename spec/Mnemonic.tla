------------------------------ MODULE Mnemonic ------------------------------
(***************************************************************************)
(* The mnemonic codec of go-qrllib (misc/helper.go:120-226), concrete.     *)
(*                                                                         *)
(* Bytes are 0..255, a word is its index 0..4095 in the word list, a       *)
(* phrase is a sequence of Unicode code points.  Enc transcribes           *)
(* binToMnemonic's nibble cursor (even/odd branch, implicit zero pad), Dec *)
(* transcribes mnemonicToBin's current/buffering accumulator with its      *)
(* final flush; Tokens is strings.Split(phrase, " ").                      *)
(***************************************************************************)
EXTENDS Integers, Sequences, FiniteSets, SequencesExt

Shl(x, n) == x * 2^n
Shr(x, n) == x \div 2^n

---------------------------------------------------------------------------
(* binToMnemonic: bytes (length a multiple of 3) -> word indices *)

WordAt(bytes, nibble) ==
  LET p  == nibble \div 2
      b1 == bytes[p + 1]
      b2 == IF p + 1 < Len(bytes) THEN bytes[p + 2] ELSE 0
  IN IF nibble % 2 = 0 THEN Shl(b1, 4) + Shr(b2, 4)
                       ELSE Shl(b1 % 16, 8) + b2

Enc(bytes) == [w \in 1..((2 * Len(bytes) + 2) \div 3) |-> WordAt(bytes, 3 * (w - 1))]

EncDefined(bytes) == Len(bytes) % 3 = 0

---------------------------------------------------------------------------
(* mnemonicToBin on word indices: the accumulator machine.                 *)
(* st = [cur, buf, out]                                                    *)

RECURSIVE Drain(_)
Drain(st) ==
  IF st.buf > 2
  THEN LET shift == 4 * (st.buf - 2)
       IN Drain([cur |-> st.cur % 2^shift, buf |-> st.buf - 2, out |-> Append(st.out, Shr(st.cur, shift) % 256)])
  ELSE st

Feed(st, value) == Drain([cur |-> Shl(st.cur, 12) + value, buf |-> st.buf + 3, out |-> st.out])

DecWords(words) ==
  LET st == FoldLeft(Feed, [cur |-> 0, buf |-> 0, out |-> <<>>], words)
  IN IF st.buf > 0 THEN Append(st.out, st.cur % 256) ELSE st.out

---------------------------------------------------------------------------
(* phrases as code points *)

SPACE == 32

\* strings.Split(s, " "): always at least one token; empty tokens are kept
Tokens(chars) ==
  LET r == FoldLeft(LAMBDA acc, c : IF c = SPACE THEN [done |-> Append(acc.done, acc.cur), cur |-> <<>>]
                                               ELSE [done |-> acc.done, cur |-> Append(acc.cur, c)],
                    [done |-> <<>>, cur |-> <<>>], chars)
  IN Append(r.done, r.cur)

Value(v)  == [kind |-> "value", bytes |-> v]
Refuse(m) == [kind |-> "refused", msg |-> m]

\* mnemonicToBin(phrase) given the word list as a function word -> index
DecodePhrase(chars, WordIndex) ==
  LET toks == Tokens(chars)
  IN IF Len(toks) % 2 # 0 THEN Refuse("word count must be even")
     ELSE IF \E i \in 1..Len(toks) : toks[i] \notin DOMAIN WordIndex THEN Refuse("invalid word in mnemonic")
     ELSE Value(DecWords([i \in 1..Len(toks) |-> WordIndex[toks[i]]]))

\* MnemonicToSeedBin (size = 48) / MnemonicToExtendedSeedBin (size = 51)
DecodeSized(chars, WordIndex, size) ==
  LET r == DecodePhrase(chars, WordIndex)
  IN IF r.kind = "value" /\ Len(r.bytes) # size THEN Refuse("unexpected output size") ELSE r

\* the rendering binToMnemonic produces: words joined by single spaces
Render(words, WordList) ==
  FoldLeft(LAMBDA acc, i : IF i = 1 THEN WordList[words[i] + 1] ELSE acc \o <<SPACE>> \o WordList[words[i] + 1],
           <<>>, [i \in 1..Len(words) |-> i])

---------------------------------------------------------------------------
(* word list facts (C10 needs the list duplicate-free, lower-case, whitespace-free) *)
WordListOK(WordList) ==
  /\ Len(WordList) = 4096
  /\ Cardinality({WordList[i] : i \in 1..Len(WordList)}) = 4096
  /\ \A i \in 1..Len(WordList) : /\ Len(WordList[i]) > 0
                                 /\ \A j \in 1..Len(WordList[i]) : WordList[i][j] \in 97..122
=============================================================================
