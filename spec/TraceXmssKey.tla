--------------------------- MODULE TraceXmssKey ---------------------------
(***************************************************************************)
(* Trace validation for xmss.XMSS objects (properties C01, C02, C08).      *)
(*                                                                         *)
(* The trace is an ndjson file written by the Go harness while it drives   *)
(* REAL key objects: one line per public call, logged at the call's return *)
(* (on the panic path too), carrying the call's arguments, its result      *)
(* class, what the signature contains (index bytes, authentication path    *)
(* projected to tree nodes, result of xmss.Verify for the signed and for a *)
(* different message), the key's index and its full BDS state projected to *)
(* tree nodes, and a digest of everything the getters report.              *)
(*                                                                         *)
(* Every line is explained by the operators of XmssKeyOps applied to the   *)
(* PREVIOUS logged state of that key object:                               *)
(*  - the property's observables are checked against the specification     *)
(*    and every failure is recorded in `viols` with the property it breaks *)
(*  - the logged post-state is compared with the state the specification   *)
(*    predicts; a difference is counted in `drift` (the code no longer     *)
(*    follows the model step by step), the LOGGED state is adopted and the *)
(*    object is marked off-model: from then on only its observables are    *)
(*    checked (the model's operators are total on model-reachable states   *)
(*    only), so the rest of the trace is still examined.                   *)
(* Several key objects may be alive (field k); objects built from the same *)
(* seed and parameters share a family (field fam) in which equal indices   *)
(* must mean equal live state and equal signatures (C08).                  *)
(* The last step writes the verdict as JSON for the check driver.          *)
(***************************************************************************)
EXTENDS XmssKeyOps, Json, IOUtils

Trace == ndJsonDeserialize(IOEnv.VERIF_TRACE)
ResultPath == IOEnv.VERIF_RESULT

VARIABLES l,       \* next line of the trace
          keys,    \* key id -> [idx, bds, pkid, maxEmitted, fam, onModel]
          fams,    \* family id -> [stateAt : idx -> live view, sigAt : <<idx,msg>> -> digest]
          drift,   \* number of events whose logged post-state differs from the prediction
          firstDrift,
          viols,   \* sequence of [l, prop, what] (first MaxViols kept)
          nviols,  \* property id -> number of violations
          counts,  \* event name -> number
          done

tvars == <<l, keys, fams, drift, firstDrift, viols, nviols, counts, done>>

MaxViols == 100

Z(seq) == [i \in 0..Len(seq)-1 |-> seq[i + 1]]      \* JSON array -> 0-based function

\* a logged state as a Bds record
StateOf(st) ==
  [ stack       |-> Z(st.stack),
    stackOffset |-> st.stackOffset,
    stackLevels |-> Z(st.stackLevels),
    auth        |-> Z(st.auth),
    keep        |-> Z(st.keep),
    th          |-> Z(st.th),
    retain      |-> Z(st.retain) ]

IsRefusal(res) == res # OK
HasKey(k) == k \in DOMAIN keys
V(prop, what) == <<[l |-> l, prop |-> prop, what |-> what]>>
When(c, v) == IF c THEN v ELSE <<>>

\* a logged state whose buffers do not have the sizes of the modelled parameter set (K = 2) is compared
\* as it is: the library may legitimately keep another traversal parameter, that is drift, not a verdict
Shaped(b) == /\ DOMAIN b.th = 0..H-K-1 /\ DOMAIN b.retain = 0..RetainLen-1 /\ DOMAIN b.stack = 0..H
             /\ DOMAIN b.stackLevels = 0..H /\ DOMAIN b.auth = 0..H-1 /\ DOMAIN b.keep = 0..(H \div 2)-1
LV(b) == IF Shaped(b) THEN LiveView(b) ELSE [raw |-> b]

\* family bookkeeping: first observation wins, later ones must agree
FamCheckState(f, i, b) ==
  When(f \in DOMAIN fams /\ i \in DOMAIN fams[f].stateAt /\ fams[f].stateAt[i] # LV(b),
       V("C08", "live state at this index differs from the state another object of the same seed had at it"))
FamCheckSig(f, key, d) ==
  When(f \in DOMAIN fams /\ key \in DOMAIN fams[f].sigAt /\ fams[f].sigAt[key] # d,
       V("C08", "signature bytes differ from the signature another object of the same seed produced for this index and message"))
FamPut(f, i, b, sigkey, d) ==
  LET old == IF f \in DOMAIN fams THEN fams[f] ELSE [stateAt |-> <<>>, sigAt |-> <<>>]
      s1  == IF i \in DOMAIN old.stateAt THEN old.stateAt ELSE (i :> LV(b)) @@ old.stateAt
      g1  == IF sigkey = <<>> \/ sigkey \in DOMAIN old.sigAt THEN old.sigAt ELSE (sigkey :> d) @@ old.sigAt
  IN (f :> [stateAt |-> s1, sigAt |-> g1]) @@ fams

Bump(name) == counts' = [counts EXCEPT ![name] = @ + 1]
Note(isDrift) == /\ drift' = drift + (IF isDrift THEN 1 ELSE 0)
                 /\ firstDrift' = IF isDrift /\ firstDrift = 0 THEN l ELSE firstDrift
Record(vs) == /\ viols' = IF Len(viols) < MaxViols THEN viols \o vs ELSE viols
              /\ nviols' = [p \in DOMAIN nviols |-> nviols[p] + Len(SelectSeq(vs, LAMBDA v : v.prop = p))]

---------------------------------------------------------------------------
Init == /\ l = 1
        /\ keys = <<>>
        /\ fams = <<>>
        /\ drift = 0
        /\ firstDrift = 0
        /\ viols = <<>>
        /\ nviols = [p \in {"C01", "C02", "C08"} |-> 0]
        /\ counts = [n \in {"KeyGen", "Sign", "SetIndex", "Drop", "Clone", "signed", "refused", "jumped"} |-> 0]
        /\ done = FALSE

Ev == Trace[l]

KeyGen ==
  /\ Ev.ev = "KeyGen"
  /\ LET e == Ev
         b == StateOf(e.st)
         \* tall trees (field nomodel): the traversal model is not evaluated (a jump over 2^16 indices is
         \* 2^16 Advance steps), the object is off-model from the start and only its observables are checked
         noModel == "nomodel" \in DOMAIN e /\ e.nomodel
         \* keys whose descriptor names a hash function the library does not implement (ids 3..15; the
         \* constructors accept them): C01 is stated for the three hash functions only, C02 for every key
         \* object, so these objects are judged as counter automata and nothing else
         cOnly == "counteronly" \in DOMAIN e /\ e.counteronly
         isDrift == ~noModel /\ (b # ClosedInit \/ e.idx # 0)
     IN /\ keys' = (e.k :> [idx |-> e.idx, bds |-> b, pkid |-> e.pkid, maxEmitted |-> -1, fam |-> e.fam,
                            onModel |-> ~isDrift /\ ~noModel, counterOnly |-> cOnly]) @@ keys
        /\ Note(isDrift)
        /\ Record(<<>>
             \o When(~cOnly /\ ~e.rootok, V("C01", "root in the public key is not the root of the full Merkle tree"))
             \o FamCheckState(e.fam, e.idx, b))
        /\ fams' = FamPut(e.fam, e.idx, b, <<>>, "")
        /\ counts' = [counts EXCEPT !["KeyGen"] = @ + 1]

SignEv ==
  /\ Ev.ev = "Sign"
  /\ LET e   == Ev
         pre == keys[e.k]
         b   == StateOf(e.st)
         r   == SignResult(pre.idx, pre.bds)
         isDrift == pre.onModel /\ (b # r.bds \/ e.idx # r.idx \/ e.res # r.outcome)
         ok  == e.res = OK
         sigkey == IF ok THEN <<e.sig.idx, e.msg>> ELSE <<>>
     IN /\ keys' = [keys EXCEPT ![e.k] = [@ EXCEPT !.idx = e.idx, !.bds = b, !.onModel = @ /\ ~isDrift,
                                           !.maxEmitted = IF ok THEN e.sig.idx ELSE @]]
        /\ Note(isDrift)
        /\ Record(<<>>
             \* ---- C01: the signature verifies, for exactly this message, with the true path
             \o When(ok /\ ~pre.counterOnly /\ Z(e.sig.auth) # AuthPath(e.sig.idx),
                     V("C01", "authentication path in the signature is not the path of the index it carries"))
             \o When(ok /\ ~pre.counterOnly /\ Len(e.sig.auth) = H /\ RootFromPath(e.sig.idx, Z(e.sig.auth)) # ROOT,
                     V("C01", "root recomputed from the signature's authentication path is not the tree root"))
             \o When(ok /\ ~pre.counterOnly /\ e.sig.verify = "false", V("C01", "xmss.Verify rejects the signature the key returned"))
             \o When(ok /\ ~pre.counterOnly /\ e.sig.verifyOther = "true", V("C01", "xmss.Verify accepts the signature for a different message"))
             \* ---- C02: counter automaton
             \o When(ok /\ e.sig.idx # pre.idx, V("C02", "index embedded in the signature is not the key's index"))
             \o When(ok /\ e.sig.idx <= pre.maxEmitted, V("C02", "index embedded in a signature is not larger than an earlier one"))
             \o When(ok /\ e.sig.idx >= N, V("C02", "signature produced with an index beyond the last leaf"))
             \o When(ok /\ e.idx # pre.idx + 1, V("C02", "successful signature did not consume exactly one index"))
             \o When(ok /\ pre.idx >= N, V("C02", "exhausted key produced a signature"))
             \o When(~ok /\ pre.idx < N, V("C02", "Sign refused although unused indices remain"))
             \o When(~ok /\ (e.idx # pre.idx \/ b # pre.bds \/ ~e.rawsame), V("C02", "refused Sign changed the key"))
             \o When(e.pkid # pre.pkid, V("C02", "public key, address or seed reported by the object changed"))
             \o When("keptsame" \in DOMAIN e /\ ~e.keptsame,
                     V("C01", "a signature returned earlier was changed by a later call on the same key") \o
                     V("C02", "a signature returned earlier was changed by a later call on the same key (its index field is no longer the one it was returned with)"))
             \* ---- C08
             \o FamCheckState(pre.fam, e.idx, b)
             \o (IF ok THEN FamCheckSig(pre.fam, sigkey, e.sig.d) ELSE <<>>))
        /\ fams' = FamPut(pre.fam, e.idx, b, sigkey, IF ok THEN e.sig.d ELSE "")
        /\ counts' = [counts EXCEPT !["Sign"] = @ + 1, ![IF ok THEN "signed" ELSE "refused"] = @ + 1]

SetIndexEv ==
  /\ Ev.ev = "SetIndex"
  /\ LET e   == Ev
         pre == keys[e.k]
         b   == StateOf(e.st)
         r   == SetIndexResult(pre.idx, pre.bds, e.arg)
         isDrift == pre.onModel /\ (b # r.bds \/ e.idx # r.idx \/ e.res # r.outcome)
         ok  == e.res = OK
         legal == e.arg < N /\ e.arg >= pre.idx
     IN /\ keys' = [keys EXCEPT ![e.k] = [@ EXCEPT !.idx = e.idx, !.bds = b, !.onModel = @ /\ ~isDrift]]
        /\ Note(isDrift)
        /\ Record(<<>>
             \o When(ok /\ ~legal, V("C02", "SetIndex backwards or past the last leaf was not refused"))
             \o When(ok /\ legal /\ e.idx # e.arg, V("C02", "SetIndex did not set the requested index"))
             \o When(~ok /\ legal, V("C02", "legal forward SetIndex was refused"))
             \o When(~ok /\ (e.idx # pre.idx \/ b # pre.bds \/ ~e.rawsame), V("C02", "refused SetIndex changed the key"))
             \o When(e.pkid # pre.pkid, V("C02", "public key, address or seed reported by the object changed"))
             \o FamCheckState(pre.fam, e.idx, b))
        /\ fams' = FamPut(pre.fam, e.idx, b, <<>>, "")
        /\ counts' = [counts EXCEPT !["SetIndex"] = @ + 1, ![IF ok THEN "jumped" ELSE "refused"] = @ + 1]

\* harness-only step: an independent deep copy of a live object (VerifClone)
Clone ==
  /\ Ev.ev = "Clone"
  /\ LET e == Ev
         b == StateOf(e.st)
         src == keys[e.from]
     IN /\ keys' = (e.k :> [src EXCEPT !.idx = e.idx, !.bds = b]) @@ keys
        /\ Note(b # src.bds \/ e.idx # src.idx)
  /\ counts' = [counts EXCEPT !["Clone"] = @ + 1]
  /\ UNCHANGED <<fams, viols, nviols>>

Drop ==
  /\ Ev.ev = "Drop"
  /\ keys' = [k \in (DOMAIN keys) \ {Ev.k} |-> keys[k]]
  /\ fams' = IF Ev.fam >= 0 THEN [f \in (DOMAIN fams) \ {Ev.fam} |-> fams[f]] ELSE fams
  /\ counts' = [counts EXCEPT !["Drop"] = @ + 1]
  /\ Record(When("keptsame" \in DOMAIN Ev /\ ~Ev.keptsame,
                 V("C02", "secret key, root or PUB_SEED handed out by the object changed after the object was dropped")))
  /\ UNCHANGED <<drift, firstDrift>>

\* re-creating a key from what the original exported did not return an object
RebuildFailed ==
  /\ Ev.ev = "RebuildFailed"
  /\ Record(V("C08", "re-creating the key from its exported secret failed"))
  /\ counts' = counts
  /\ UNCHANGED <<keys, fams, drift, firstDrift>>

Step == /\ l <= Len(Trace)
        /\ ~done
        /\ l' = l + 1
        /\ done' = FALSE
        /\ (KeyGen \/ SignEv \/ SetIndexEv \/ Clone \/ Drop \/ RebuildFailed)

Finish == /\ l = Len(Trace) + 1
          /\ ~done
          /\ done' = TRUE
          /\ JsonSerialize(ResultPath,
                [consumed |-> l - 1, len |-> Len(Trace), drift |-> drift, firstDrift |-> firstDrift,
                 viols |-> viols, nviols |-> nviols, counts |-> counts, H |-> H])
          /\ UNCHANGED <<l, keys, fams, drift, firstDrift, viols, nviols, counts>>

Next == Step \/ Finish

\* the trace is one deterministic behaviour: its position identifies the state
\* (keeps TLC from fingerprinting the whole bookkeeping at every step)
TraceView == <<l, done>>
Spec == Init /\ [][Next]_tvars
=============================================================================
