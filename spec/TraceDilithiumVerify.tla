------------------------- MODULE TraceDilithiumVerify -------------------------
(***************************************************************************)
(* Trace validation of Dilithium verification (C05).  Every event is one   *)
(* (message, signature, public key) triple derived from a genuine          *)
(* signature: unmodified, single-bit flips, hint-section re-encodings that *)
(* break one canonical-form condition while denoting the SAME hint vector, *)
(* other hint corruptions, wrong message / other key, and signatures made  *)
(* with the secret key by a signer that skipped one signing-side test.     *)
(* The event carries the raw 83 hint bytes and the infinity norm of z      *)
(* (both extracted from the signature bytes by the harness's own decoder), *)
(* whether anything differs from the genuine triple, and the answers of    *)
(* Verify and Open.  The specification (HintCodec at the real parameters)  *)
(* computes canonicity itself.  Verify may answer true only for            *)
(*   canonical hints /\ ||z|| < GAMMA1 - BETA /\ challenge matches,        *)
(* and a modified triple cannot match the challenge.                       *)
(***************************************************************************)
EXTENDS DilithiumMath, HintCodec, IOUtils, Json, TLC

Trace == ndJsonDeserialize(IOEnv.VERIF_TRACE)
ResultPath == IOEnv.VERIF_RESULT

When(c, s) == IF c THEN <<s>> ELSE <<>>

\* "flipgroup" events carry eight verdicts (the eight bits of one byte)
Verdicts(e) == IF e.ev = "flipgroup" THEN e.verifies ELSE <<e.verify>>
OpenNils(e) == IF e.ev = "flipgroup" THEN e.opennils ELSE <<e.opennil>>

MayVerify(e) ==
  /\ ~e.modified                        \* challenge can only match the genuine triple
  /\ e.ev # "flipgroup"
  /\ HintCanonical(e.hint)
  /\ e.maxz < GAMMA1 - BETA

Judge(e) ==
  IF e.ev = "skiprecord" THEN <<>> ELSE
  LET vs == Verdicts(e) ns == OpenNils(e)
  IN When(\E i \in 1..Len(vs) : vs[i] /\ ~MayVerify(e),
          IF e.ev # "flipgroup" /\ ~HintCanonical(e.hint) THEN "accepted a signature whose hint encoding is not canonical"
          ELSE IF e.maxz >= GAMMA1 - BETA THEN "accepted a signature whose response z is out of range"
          ELSE "accepted a modified (message, signature, public key) triple")
     \o When(\E i \in 1..Len(vs) : ~vs[i] /\ MayVerify(e) /\ e.genuine, "rejected a genuine signature")
     \o When(\E i \in 1..Len(vs) : ns[i] = vs[i], "Open and Verify disagree (Open must return the message iff Verify accepts)")

\* signatures from the skipping signer whose only defect is a low-bits bound: the lemma gives no
\* definite answer, the verdict is recorded only
DriftOf(e) == <<>>

VARIABLES l, viols, nviol, drift, counts, done
K == INSTANCE TraceKit WITH Judge <- Judge, Drift <- DriftOf
Spec == K!Spec
View == K!View
=============================================================================
