------------------------------- MODULE MCBds -------------------------------
(* Static facts about Bds.tla checked by TLC as invariants of a one-state   *)
(* behaviour: the closed-form initial state equals what treeHashSetup       *)
(* computes, and treeHashSetup computes the root.                           *)
EXTENDS Bds
Setup == SetupOf(0)
VARIABLE x
Init == x = 0
Next == x' = x
ClosedInitIsSetup == ClosedInit = Setup.bds
SetupRootIsRoot == Setup.root = ROOT
SetupNoBad == NoBad(Setup.bds)
=============================================================================
