----------------------------- MODULE TraceDilPack -----------------------------
(***************************************************************************)
(* Trace validation of the Dilithium encodings (C13).  Events:             *)
(*  pack     coefficients -> bytes -> coefficients through the real packer *)
(*           and unpacker of one polynomial kind (eta, t1, t0, z; w1 is    *)
(*           pack only)                                                    *)
(*  unpack   arbitrary bytes -> coefficients -> bytes (canonicity)         *)
(*  hint     a hint vector -> the 83 hint bytes (packSig) -> unpackSig     *)
(*  sig      signature byte strings through unpackSig and, when accepted,  *)
(*           packSig again                                                 *)
(*  keys     layout of public and secret key                               *)
(* Every event is recomputed with DilithiumPack!PackBits / UnpackBits and  *)
(* HintCodec at the real parameters.                                       *)
(***************************************************************************)
EXTENDS DilithiumPack, HintCodec, IOUtils, Json, TLC

Trace == ndJsonDeserialize(IOEnv.VERIF_TRACE)
ResultPath == IOEnv.VERIF_RESULT

When(c, s) == IF c THEN <<s>> ELSE <<>>
NCOEF == 256

JudgePack(e) ==
  LET inr == \A i \in 1..NCOEF : InRange(e.kind, e.coeffs[i])
  IN When(inr /\ e.bytes # PackPoly(e.kind, e.coeffs), "packed bytes are not the little-endian bit packing of the coefficients")
     \o When(inr /\ e.kind # "w1" /\ e.back # e.coeffs, "unpack(pack(v)) is not v")
     \o When(inr /\ e.kind # "w1" /\ UnpackPoly(e.kind, NCOEF, e.bytes) # e.coeffs, "specified unpacking of the produced bytes does not give the coefficients")

JudgeUnpack(e) ==
  When(e.coeffs # UnpackPoly(e.kind, NCOEF, e.bytes), "unpacked coefficients are not the specified decoding of the bytes")
  \o When(e.repack # e.bytes, "pack(unpack(b)) is not b")

Rows(e) == [i \in 1..HK |-> {e.rows[i][j] : j \in 1..Len(e.rows[i])}]
JudgeHint(e) ==
  LET h == Rows(e) w == Weight(h)
  IN IF w <= HOMEGA
     THEN When(e.bytes # Encode(h), "hint section is not the specified encoding of the hint vector")
          \o When(e.rc # 0, "decoder refused the encoding of an admissible hint vector")
          \o When(e.rc = 0 /\ [i \in 1..HK |-> {e.backrows[i][j] : j \in 1..Len(e.backrows[i])}] # h, "unpack(pack(h)) is not h")
     ELSE When(e.rc = 0, "a hint vector heavier than OMEGA was encoded into bytes the decoder accepts")

\* signature layout: c (32) || z (7 * 640) || hints (83)
JudgeSig(e) ==
  LET canon == HintCanonical(e.hint)
  IN When((e.rc = 0) # canon, "unpackSig accepts exactly the canonical hint encodings: violated")
     \o When(e.rc = 0 /\ e.repack_digest # e.bytes_digest, "pack(unpack(s)) is not s for an accepted signature")
     \o When(e.rc = 0 /\ \E p \in 1..7 : e.z[p] # UnpackPoly("z", NCOEF, e.zbytes[p]), "z of an accepted signature is not the specified decoding")

JudgeKeys(e) ==
  When(e.pk_rho # SubSeq(e.pk, 1, 32), "public key does not start with rho")
  \o When(\E i \in 1..8 : SubSeq(e.pk, 33 + 320 * (i - 1), 32 + 320 * i) # PackPoly("t1", e.t1[i]), "public key is not rho || pack10(t1)")
  \o When(e.sk_parts # <<SubSeq(e.sk, 1, 32), SubSeq(e.sk, 33, 64), SubSeq(e.sk, 65, 96)>>, "secret key does not start with rho || key || tr")
  \o When(\E i \in 1..7 : SubSeq(e.sk, 97 + 96 * (i - 1), 96 + 96 * i) # PackPoly("eta", e.s1[i]), "secret key: s1 section")
  \o When(\E i \in 1..8 : SubSeq(e.sk, 769 + 96 * (i - 1), 768 + 96 * i) # PackPoly("eta", e.s2[i]), "secret key: s2 section")
  \o When(\E i \in 1..8 : SubSeq(e.sk, 1537 + 416 * (i - 1), 1536 + 416 * i) # PackPoly("t0", e.t0[i]), "secret key: t0 section")
  \o When(Len(e.pk) # 2592 \/ Len(e.sk) # 4864, "key sizes")

Judge(e) ==
  CASE e.ev = "pack" -> JudgePack(e)
    [] e.ev = "unpack" -> JudgeUnpack(e)
    [] e.ev = "hint" -> JudgeHint(e)
    [] e.ev = "sig" -> JudgeSig(e)
    [] e.ev = "keys" -> JudgeKeys(e)
    [] OTHER -> <<"unknown event">>
DriftOf(e) == <<>>

VARIABLES l, viols, nviol, drift, counts, done
K == INSTANCE TraceKit WITH Judge <- Judge, Drift <- DriftOf
Spec == K!Spec
View == K!View
=============================================================================
