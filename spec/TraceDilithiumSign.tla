-------------------------- MODULE TraceDilithiumSign --------------------------
(***************************************************************************)
(* Trace validation of Dilithium signing (C03).  One event per message:    *)
(* the iterations of the rejection loop observed through the signing hook  *)
(* (exit taken, nonce, exact infinity norms of z, w0 - cs2, ct0, number of *)
(* hints) for Sign and for Seal, and the object-level observables          *)
(* (Verify of the signature for the message, for another message and for   *)
(* another key; Open of the sealed form; the Extract functions).           *)
(*  violation: the signature does not verify, verifies for something else, *)
(*             or the sealed form does not open / extract to the message   *)
(*             and the detached signature;                                 *)
(*  drift:     the run of the loop is not a behaviour of DilithiumSign.tla *)
(*             (an exit that is not the first failing test for the logged  *)
(*             norms, nonce not counting iterations, Seal looping          *)
(*             differently from Sign).                                     *)
(***************************************************************************)
EXTENDS DilithiumMath, IOUtils, Json, TLC

Trace == ndJsonDeserialize(IOEnv.VERIF_TRACE)
ResultPath == IOEnv.VERIF_RESULT
SigBytes == 4595

When(c, s) == IF c THEN <<s>> ELSE <<>>

\* first failing test in code order, given what is known at that exit (-1 = not computed)
ExitOf(it) ==
  IF it.maxz >= GAMMA1 - BETA THEN 1
  ELSE IF it.maxw0 >= GAMMA2 - BETA THEN 2
  ELSE IF it.maxct0 >= GAMMA2 THEN 3
  ELSE IF it.hints > OMEGA THEN 4
  ELSE 0

Computed(it) ==      \* the scalars the code has computed when it leaves through it.exit
  /\ it.exit >= 2 \/ it.exit = 0 => it.maxw0 >= 0
  /\ it.exit >= 3 \/ it.exit = 0 => it.maxct0 >= 0

RunOK(its) ==
  /\ Len(its) >= 1
  /\ \A i \in 1..Len(its) :
        /\ its[i].nonce = i                     \* nonce is incremented once per iteration
        /\ Computed(its[i])
        /\ its[i].exit = ExitOf(its[i])
        /\ (its[i].exit = 0) <=> (i = Len(its))

\* "hold": one key object, many calls, one message buffer rewritten in place, every result kept by the caller
\* and looked at again after the last call.  Sign and Seal are functions of (key, message content at the call):
\* what they returned is the caller's and does not change, and does not depend on earlier calls.
JudgeHold(e) ==
  IF e.res # "ok" THEN <<"signing failed">>
  ELSE When(~e.keptsigsame, "a signature returned earlier was changed by a later call")
       \o When(~e.keptsealsame, "a sealed message returned earlier was changed by a later call on the same key")
       \o When(~e.allverify, "a signature does not verify for the message as it was when Sign was called (message buffer reused by the caller)")
       \o When(~e.allopen, "a sealed message does not open to the message as it was when Seal was called")
       \o When(~e.sealissigmsg, "a sealed message is not Sign(m) || m")

\* "bulk": n further (key, message) pairs reduced to counts
JudgeBulk(e) ==
  When(e.signerrs > 0, "Sign returned an error (or panicked) for a message")
  \o When(e.notverify > 0, "a signature returned by Sign does not verify under the key's public key (bulk run)")

Judge(e) ==
  IF e.ev = "bulk" THEN JudgeBulk(e)
  ELSE IF e.ev = "hold" THEN JudgeHold(e)
  ELSE IF e.res # "ok" THEN <<"signing failed">>
  ELSE When(~e.verify, "the signature returned by Sign does not verify under the key's public key")
       \o When(e.verifyother, "the signature verifies for a different message")
       \o When(e.verifyotherkey, "the signature verifies under another key")
       \o When(e.seallen # SigBytes + e.msglen, "sealed form is not signature || message in length")
       \o When(e.opennil \/ ~e.openeq, "Open(Seal(m)) is not m")
       \o When(~e.exsigeq, "ExtractSignature(Seal(m)) is not Sign(m)")
       \o When(~e.exmsgeq, "ExtractMessage(Seal(m)) is not m")
       \o When(~e.sealsigeq, "Seal(m) does not begin with Sign(m)")
       \o When(~e.msgintact, "signing modified the caller's message")

DriftOf(e) ==
  IF e.ev \in {"hold", "bulk"} \/ e.res # "ok" THEN <<>>
  ELSE When(~RunOK(e.iters), "rejection loop of Sign is not a run of DilithiumSign.tla for the logged norms")
       \o When(e.sealiters # e.iters, "Seal and Sign took different runs of the rejection loop for the same message")

VARIABLES l, viols, nviol, drift, counts, done
K == INSTANCE TraceKit WITH Judge <- Judge, Drift <- DriftOf
Spec == K!Spec
View == K!View
=============================================================================
