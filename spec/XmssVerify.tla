----------------------------- MODULE XmssVerify -----------------------------
(***************************************************************************)
(* xmss.Verify / VerifyWithCustomWOTSParamW (xmss/xmss.go:220-334).        *)
(*                                                                         *)
(* Part 1, concrete: WOTS parameter derivation (params.go) and the guard   *)
(* cascade in front of the cryptographic check, with the exact refusal     *)
(* texts, as a function of (signature length, w, descriptor bytes).        *)
(*                                                                         *)
(* Part 2, symbolic: signer and verifier over a free term algebra (every   *)
(* keyed, address-separated hash is a constructor, hence injective).  A    *)
(* scenario is a genuine (message, signature, public key) triple plus a    *)
(* set of mutated components; the verifier recomputes the root term and    *)
(* accepts iff it equals the root term in the public key.                  *)
(***************************************************************************)
EXTENDS Descriptor, FiniteSets, TLC

---------------------------------------------------------------------------
(* params.go NewWOTSParams, n = 32 *)

RECURSIVE Log2Floor(_)
Log2Floor(x) == IF x <= 1 THEN 0 ELSE 1 + Log2Floor(x \div 2)

WotsLogW(w) == Log2Floor(w)                 \* uint32(math.Log2(float64(w)))
WotsParamsOK(w) == WotsLogW(w) \in {2, 4, 8}
WotsLen1(w) == (8 * 32) \div WotsLogW(w)
WotsLen2(w) == (Log2Floor(WotsLen1(w) * (w - 1)) \div WotsLogW(w)) + 1
WotsLen(w) == WotsLen1(w) + WotsLen2(w)
WotsKeySize(w) == WotsLen(w) * 32

SigBase(w) == 4 + 32 + WotsKeySize(w)       \* calculateSignatureBaseSize
SigSize(h, w) == SigBase(w) + h * 32        \* getSignatureSize
MaxHeight == 30
BdsK == 2

Value(v)    == [kind |-> "value", v |-> v]
Refuse(m)   == [kind |-> "refused", msg |-> m]
Continue(h, hf) == [kind |-> "continue", h |-> h, hf |-> hf]

MsgTooLong == "invalid signature size. Height<=254"
MsgSigType == "invalid signature type"
MsgSigSize == "Invalid signature size"
MsgBds     == "For BDS traversal, H - K must be even, with H > K >= 2!"
MsgLogW    == "logW should be either 2, 4 or 8"
LibraryMessages == {MsgTooLong, MsgSigType, MsgSigSize, MsgBds, MsgLogW}

\* the guards of VerifyWithCustomWOTSParamW in code order
Cascade(sigLen, w, b0, b1) ==
  IF ~WotsParamsOK(w) THEN Refuse(MsgLogW)
  ELSE IF sigLen > SigBase(w) + MaxHeight * 32 THEN Refuse(MsgTooLong)
  ELSE LET d == Decode(<<b0, b1, 0>>) IN
       IF d.sig # XMSSSig THEN Refuse(MsgSigType)
       ELSE IF sigLen < SigBase(w) THEN Refuse(MsgSigSize)
       ELSE IF (sigLen - 4) % 32 # 0 THEN Refuse(MsgSigSize)
       ELSE LET h == (sigLen - SigBase(w)) \div 32 IN
            IF h = 0 \/ d.height # h THEN Value(FALSE)
            ELSE IF d.hf \notin SupportedHash THEN Value(FALSE)
            ELSE IF BdsK >= h \/ (h - BdsK) % 2 = 1 THEN Refuse(MsgBds)
            ELSE Continue(h, d.hf)

---------------------------------------------------------------------------
(* Part 2: symbolic scheme.  LEN chains (the real scheme has 67; the       *)
(* structure is uniform in the chain number).                              *)

CONSTANT LEN, HT        \* chains per WOTS key, tree height of the scenario

\* constructors (free terms)
HMsgT(hf, r, root, idx, msg)        == <<"HMsg", hf, r, root, idx, msg>>
DigitT(mh, c)                       == <<"digit", mh, c>>          \* c-th base-w digit (incl. checksum digits) of a message hash
ChainT(hf, seed, ots, c, d, v)      == <<"chain", hf, seed, ots, c, d, v>>   \* value v advanced to position d of chain c
EndT(hf, seed, ots, c, dFrom, v)    == <<"end", hf, seed, ots, c, dFrom, v>> \* completing a chain from position dFrom
LTreeT(hf, seed, lt, pks)           == <<"ltree", hf, seed, lt, pks>>
NodeT(hf, seed, height, index, l, r) == <<"node", hf, seed, height, index, l, r>>

\* the secret side of a key (seed s): WOTS secret of (leaf i, chain c), PRF key
SkT(s, i, c) == <<"sk", s, i, c>>
RT(s, i)     == <<"R", s, i>>
PubSeedT(s)  == <<"pubseed", s>>

\* completing a chain: the honest value at position d of chain c completes to the
\* chain's end (the WOTS public key element) exactly when hash function, public
\* seed, OTS address, chain number and position agree
WotsPkT(hf, s, i, c) == <<"wotspk", hf, s, i, c>>
Complete(hf, seed, ots, c, d, v) ==
  IF v[1] = "chain" /\ v = ChainT(hf, seed, ots, c, d, v[7]) /\ v[7][1] = "sk"
     /\ v[7] = SkT(v[7][2], ots, c) /\ seed = PubSeedT(v[7][2])
  THEN WotsPkT(hf, v[7][2], ots, c)
  ELSE EndT(hf, seed, ots, c, d, v)

LeafT(hf, s, i) == LTreeT(hf, PubSeedT(s), i, [c \in 1..LEN |-> WotsPkT(hf, s, i, c)])

RECURSIVE TreeT(_, _, _, _)
TreeT(hf, s, height, index) ==
  IF height = 0 THEN LeafT(hf, s, index)
  ELSE NodeT(hf, PubSeedT(s), height - 1, index, TreeT(hf, s, height - 1, 2 * index), TreeT(hf, s, height - 1, 2 * index + 1))

Sibling(x) == IF x % 2 = 0 THEN x + 1 ELSE x - 1
Shr(x, n) == x \div 2^n

\* xmssFastSignMessage + wotsSign, with the full tree instead of BDS state
SignT(hf, s, h, i, msg) ==
  LET root == TreeT(hf, s, h, 0)
      r    == RT(s, i)
      mh   == HMsgT(hf, r, root, i, msg)
  IN [ idx    |-> i,
       r      |-> r,
       chains |-> [c \in 1..LEN |-> ChainT(hf, PubSeedT(s), i, c, DigitT(mh, c), SkT(s, i, c))],
       auth   |-> [j \in 0..h-1 |-> TreeT(hf, s, j, Sibling(Shr(i, j)))] ]

PkT(hf, s, h) == [hf |-> hf, height |-> h, root |-> TreeT(hf, s, h, 0), seed |-> PubSeedT(s)]

\* xmssVerifySig + wotsPKFromSig + lTree + validateAuthPath
RECURSIVE Climb(_, _, _, _, _, _, _)
Climb(hf, seed, h, node, leafIdx, auth, j) ==
  IF j = h THEN node
  ELSE LET up == IF Shr(leafIdx, j) % 2 = 1
                 THEN NodeT(hf, seed, j, Shr(leafIdx, j + 1), auth[j], node)
                 ELSE NodeT(hf, seed, j, Shr(leafIdx, j + 1), node, auth[j])
       IN Climb(hf, seed, h, up, leafIdx, auth, j + 1)

VerifyT(msg, sig, pk, h) ==
  LET mh   == HMsgT(pk.hf, sig.r, pk.root, sig.idx, msg)
      pks  == [c \in 1..LEN |-> Complete(pk.hf, pk.seed, sig.idx, c, DigitT(mh, c), sig.chains[c])]
      leaf == LTreeT(pk.hf, pk.seed, sig.idx, pks)
  IN Climb(pk.hf, pk.seed, h, leaf, sig.idx, sig.auth, 0) = pk.root

---------------------------------------------------------------------------
(* mutations of a genuine triple *)

\* TLC refuses to compare values of different shapes, so every term is a tuple
\* headed by a constructor tag, and every component name a pair <<name, number>>
Junk(kind, n) == <<"junk", kind, n>>
MsgT(name) == <<"msg", name>>
C(name) == <<name, 0>>

Components == {C("Msg"), C("SigIdx"), C("R"), C("PkRoot"), C("PkSeed"), C("DescHash")} \cup
              {<<"Chain", c>> : c \in 1..LEN} \cup {<<"Auth", j>> : j \in 0..HT-1}
Uninterpreted == {C("DescAddrFormat"), C("DescByte2")}      \* parsed or carried, never used by verification

Mutate(t, M, otherIdx, otherHf) ==
  [ msg |-> IF C("Msg") \in M THEN Junk("msg", 0) ELSE t.msg,
    sig |-> [ idx    |-> IF C("SigIdx") \in M THEN otherIdx ELSE t.sig.idx,
              r      |-> IF C("R") \in M THEN Junk("r", 0) ELSE t.sig.r,
              chains |-> [c \in 1..LEN |-> IF <<"Chain", c>> \in M THEN Junk("chain", c) ELSE t.sig.chains[c]],
              auth   |-> [j \in 0..HT-1 |-> IF <<"Auth", j>> \in M THEN Junk("auth", j) ELSE t.sig.auth[j]] ],
    pk  |-> [ hf     |-> IF C("DescHash") \in M THEN otherHf ELSE t.pk.hf,
              height |-> t.pk.height,
              root   |-> IF C("PkRoot") \in M THEN Junk("root", 0) ELSE t.pk.root,
              seed   |-> IF C("PkSeed") \in M THEN Junk("seed", 0) ELSE t.pk.seed ] ]

Genuine(hf, s, i, msg) == [msg |-> msg, sig |-> SignT(hf, s, HT, i, msg), pk |-> PkT(hf, s, HT)]
=============================================================================
