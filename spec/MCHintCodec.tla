----------------------------- MODULE MCHintCodec -----------------------------
(* Exhaustive check of HintCodec at small parameters: every byte string of    *)
(* length HOMEGA + HK over the alphabet 0..MaxByte.                           *)
EXTENDS HintCodec, TLC
CONSTANT MaxByte
VARIABLES b, phase
Len0 == HOMEGA + HK
Init == b = <<>> /\ phase = 0
\* bytes chosen two at a time so that TLC's workers share the enumeration
Next == /\ Len(b) < Len0
        /\ \E x \in 0..MaxByte : b' = Append(b, x)
        /\ phase' = IF Len(b) + 1 = Len0 THEN 1 ELSE 0
Full == phase = 1

DecodeIffCanonical == Full => (Decode(b).ok <=> HintCanonical(b))
\* accepted byte strings are exactly the encodings of their decoded vectors (canonical, non-malleable)
ReEncode == Full /\ Decode(b).ok /\ (\A j \in 1..HOMEGA : b[j] < HN) => Encode(Decode(b).h) = b
\* every read stays inside the hint section
ReadsInside == Full => Decode(b).touched \subseteq 0..(Len0 - 1)
\* the decoded positions are the bytes themselves: at the real parameters a byte is < 256 = N
PositionsAreBytes == Full /\ Decode(b).ok => \A i \in 1..HK : Decode(b).h[i] \subseteq 0..MaxByte
=============================================================================
