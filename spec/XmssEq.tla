-------------------------------- MODULE XmssEq --------------------------------
(***************************************************************************)
(* QRL-XMSS (n = 32, w = 16, the parameters of go-qrllib) as equations     *)
(* over the hash oracle, with a FULL Merkle tree and no traversal state:   *)
(* key generation (xmss_fast.go XMSSFastGenKeyPair, genLeafWOTS, lTree),   *)
(* hash-call layout (hash.go), address serialisation (misc/helper.go) and  *)
(* signing (xmss.go xmssFastSignMessage, wotsSign).  Every quantity other  *)
(* than a hash output is plain byte arithmetic defined here.               *)
(***************************************************************************)
EXTENDS HashOracle, Bitwise, Descriptor

NB == 32
WW == 16
LEN1 == 64
LEN2 == 3
WLEN == 67

\* TLC evaluates [i \in S |-> e] lazily (e again at every application): results of real work that are
\* indexed more than once are materialised as sequences
ForceSeq(f, n) == FoldLeft(LAMBDA acc, i : Append(acc, f[i]), <<>>, [i \in 1..n |-> i])

Zeros(n) == [i \in 1..n |-> 0]
\* misc.ToByteLittleEndian (despite its name: most significant byte first), x < 2^32
ToByte(x, n) == ForceSeq([i \in 1..n |-> IF i > n - 4 THEN (x \div 256^(n - i)) % 256 ELSE 0], n)
\* misc.AddrToByte: eight 32-bit words, each most significant byte first
AddrBytes(addr) == ToByte(addr[1], 4) \o ToByte(addr[2], 4) \o ToByte(addr[3], 4) \o ToByte(addr[4], 4)
                   \o ToByte(addr[5], 4) \o ToByte(addr[6], 4) \o ToByte(addr[7], 4) \o ToByte(addr[8], 4)
XorBytes(a, b) == ForceSeq([i \in 1..Len(a) |-> a[i] ^^ b[i]], Len(a))

\* hash.go coreHash: Hash_hf(toByte(type, 32) || key || in)
Core(hf, type, key, in) == Hash(hf, ToByte(type, NB) \o key \o in, NB)
PRF(hf, key, in32) == Core(hf, 3, key, in32)
WithKam(addr, k) == [addr EXCEPT ![8] = k]

\* hashF: key and one mask from PRF(pubSeed, address with keyAndMask 0 / 1)
F(hf, in, pub, addr) ==
  LET key  == PRF(hf, pub, AddrBytes(WithKam(addr, 0)))
      mask == PRF(hf, pub, AddrBytes(WithKam(addr, 1)))
  IN Core(hf, 0, key, XorBytes(in, mask))

\* hashH: key and two masks (keyAndMask 0, 1, 2)
H(hf, l, r, pub, addr) ==
  LET key == PRF(hf, pub, AddrBytes(WithKam(addr, 0)))
      m0  == PRF(hf, pub, AddrBytes(WithKam(addr, 1)))
      m1  == PRF(hf, pub, AddrBytes(WithKam(addr, 2)))
  IN Core(hf, 1, key, XorBytes(l, m0) \o XorBytes(r, m1))

OtsAddr(i, chain, hash)      == <<0, 0, 0, 0, i, chain, hash, 0>>
LTreeAddr(i, height, index)  == <<0, 0, 0, 1, i, height, index, 0>>
NodeAddr(height, index)      == <<0, 0, 0, 2, 0, height, index, 0>>

\* XMSSFastGenKeyPair: SHAKE256(seed48, 96) = SK_SEED || SK_PRF || PUB_SEED
Expand(seed48) == Hash(3, seed48, 96)
SkSeed(e) == SubSeq(e, 1, 32)
SkPrf(e)  == SubSeq(e, 33, 64)
PubSeed(e) == SubSeq(e, 65, 96)

\* getSeed, expandSeed
OtsSeed(hf, skSeed, i) == PRF(hf, skSeed, AddrBytes(OtsAddr(i, 0, 0)))
WotsSk(hf, otsSeed, c) == PRF(hf, otsSeed, ToByte(c, NB))            \* c = 0..66

\* genChain: steps applications of F starting at position start (never past w-1)
RECURSIVE Chain(_, _, _, _, _, _, _)
Chain(hf, x, start, steps, pub, i, c) ==
  IF steps = 0 \/ start >= WW THEN x
  ELSE Chain(hf, F(hf, x, pub, OtsAddr(i, c, start)), start + 1, steps - 1, pub, i, c)

WotsPk(hf, skSeed, pub, i) ==
  LET os == OtsSeed(hf, skSeed, i)
  IN ForceSeq([c \in 1..WLEN |-> Chain(hf, WotsSk(hf, os, c - 1), 0, WW - 1, pub, i, c - 1)], WLEN)

\* lTree: pairwise hashing level by level, an odd last node is lifted unchanged
RECURSIVE LTree(_, _, _, _, _)
LTree(hf, nodes, pub, i, height) ==
  IF Len(nodes) = 1 THEN nodes[1]
  ELSE LET l == Len(nodes)
           half == l \div 2
           up == ForceSeq([j \in 1..half |-> H(hf, nodes[2 * j - 1], nodes[2 * j], pub, LTreeAddr(i, height, j - 1))], half)
           next == IF l % 2 = 1 THEN Append(up, nodes[l]) ELSE up
       IN LTree(hf, next, pub, i, height + 1)

Leaf(hf, skSeed, pub, i) == LTree(hf, WotsPk(hf, skSeed, pub, i), pub, i, 0)

\* the tree above given leaves: Levels[j+1][k+1] = node <<j, k>>
RECURSIVE BuildLevels(_, _, _, _)
BuildLevels(hf, levels, pub, height) ==
  LET cur == levels[Len(levels)]
  IN IF Len(cur) = 1 THEN levels
     ELSE BuildLevels(hf, Append(levels, ForceSeq([k \in 1..(Len(cur) \div 2) |-> H(hf, cur[2 * k - 1], cur[2 * k], pub, NodeAddr(height, k - 1))], Len(cur) \div 2)),
                      pub, height + 1)
TreeLevels(hf, leaves, pub) == BuildLevels(hf, <<leaves>>, pub, 0)
RootOf(levels) == levels[Len(levels)][1]

PublicKey(hf, height, root, pub) == Encode(hf, XMSSSig, height, SHA256_2X) \o root \o pub

\* ---------------------------------------------------------------- signing
\* base-w digits: two nibbles per byte, high nibble first
Digits(bytes, n) == ForceSeq([d \in 1..n |-> IF d % 2 = 1 THEN bytes[(d + 1) \div 2] \div 16 ELSE bytes[d \div 2] % 16], n)
Checksum(d64) == FoldLeft(LAMBDA acc, x : acc + (WW - 1 - x), 0, d64)
\* csum << 4, written as 2 bytes most significant first, then 3 base-w digits
AllDigits(msgHash) ==
  LET d == Digits(msgHash, LEN1)
      cs == Checksum(d) * 16
      cb == <<(cs \div 256) % 256, cs % 256>>
  IN d \o Digits(cb, LEN2)

MsgHash(hf, r, root, idx, msg) == Core(hf, 2, r \o root \o ToByte(idx, NB), msg)

Sibling(x) == IF x % 2 = 0 THEN x + 1 ELSE x - 1

Signature(hf, height, e, levels, idx, msg) ==
  LET pub == PubSeed(e)
      root == RootOf(levels)
      r  == PRF(hf, SkPrf(e), ToByte(idx, NB))
      mh == MsgHash(hf, r, root, idx, msg)
      b  == AllDigits(mh)
      os == OtsSeed(hf, SkSeed(e), idx)
      chains == FoldLeft(LAMBDA acc, c : acc \o Chain(hf, WotsSk(hf, os, c - 1), 0, b[c], pub, idx, c - 1), <<>>, [c \in 1..WLEN |-> c])
      auth == FoldLeft(LAMBDA acc, j : acc \o levels[j + 1][Sibling(idx \div 2^j) + 1], <<>>, [j \in 1..height |-> j - 1])
  IN ToByte(idx, 4) \o r \o chains \o auth

\* the part of a signature that does not depend on the tree: index, randomiser R = PRF(SK_PRF, idx), and the WOTS
\* signature of H_msg(R || root || idx, msg) under the one-time key of leaf idx.  root is the one in the public key.
\* (Used for trees too tall to be held: the index words of the addresses and of the H_msg key get large.)
SignatureHead(hf, e, root, idx, msg) ==
  LET pub == PubSeed(e)
      r  == PRF(hf, SkPrf(e), ToByte(idx, NB))
      mh == MsgHash(hf, r, root, idx, msg)
      b  == AllDigits(mh)
      os == OtsSeed(hf, SkSeed(e), idx)
      chains == FoldLeft(LAMBDA acc, c : acc \o Chain(hf, WotsSk(hf, os, c - 1), 0, b[c], pub, idx, c - 1), <<>>, [c \in 1..WLEN |-> c])
  IN ToByte(idx, 4) \o r \o chains
=============================================================================
