---------------------------- MODULE TraceAddress ----------------------------
(***************************************************************************)
(* Trace validation for descriptors and addresses (C11): complete tables   *)
(* of the descriptor parser / printer / validators over all 65536 leading  *)
(* byte pairs and all constructor field values, and address derivations    *)
(* for real and random public keys with digests computed by the harness    *)
(* with the Go standard library directly.                                  *)
(***************************************************************************)
EXTENDS Address, IOUtils, TLC, Json

Trace == ndJsonDeserialize(IOEnv.VERIF_TRACE)
ResultPath == IOEnv.VERIF_RESULT

When(c, s) == IF c THEN <<s>> ELSE <<>>

JudgeDescTable(e) ==
  LET bad(b1) ==
        LET d == Decode(<<e.b0, b1, e.b2>>) i == b1 + 1
        IN \/ e.hf[i] # d.hf \/ e.sig[i] # d.sig \/ e.height[i] # d.height \/ e.af[i] # d.af
  IN When(\E b1 \in 0..255 : bad(b1), "descriptor parser: a field differs from the specified nibble")
     \o When(\E b1 \in 0..255 : e.back[b1 + 1] # <<e.b0, b1, 0>>, "descriptor printer: bytes -> descriptor -> bytes is not (b0, b1, 0)")
     \o When(\E b1 \in 0..255 : e.validX[b1 + 1] # IsValidXMSSAddr(e.b0, b1), "IsValidXMSSAddress differs from the specified predicate")
     \o When(\E b1 \in 0..255 : e.validD[b1 + 1] # IsValidDilithiumAddr(e.b0), "IsValidDilithiumAddress differs from the specified predicate")
     \o When(\E b1 \in 0..255 : e.validX[b1 + 1] /\ e.validD[b1 + 1], "an address is valid for both schemes")

JudgeCtor(e) ==
  LET bad(ht, af) ==
        LET i == ht * 16 + af + 1
            enc == Encode(e.inhf, e.insig, ht, af)
            d == Decode(enc)
        IN e.enc[i] # enc \/ e.dec[i] # <<d.hf, d.sig, d.height, d.af>>
      lossy(ht, af) ==   \* even heights up to 30 and all nibble values must survive
        LET i == ht * 16 + af + 1 IN ht % 2 = 0 /\ e.dec[i] # <<e.inhf, e.insig, ht, af>>
  IN When(\E ht \in 0..31, af \in 0..15 : bad(ht, af), "descriptor constructor/printer/parser differ from the specified encoding")
     \o When(\E ht \in 0..31, af \in 0..15 : lossy(ht, af), "descriptor does not survive encoding and decoding")

JudgeXAddr(e) ==
  LET exp == XmssAddr(e.pk, e.shake)
  IN IF exp.kind = "refused"
     THEN When(e.res = "ok", "address derived for an unsupported address format")
     ELSE IF e.res # "ok" THEN <<"address derivation refused a supported public key">>
     ELSE When(e.addr # exp.v, "XMSS address is not descriptor || SHAKE256(pk)[15:32]")
          \o When(e.vx # IsValidXMSS(e.addr) \/ e.vd # IsValidDilithium(e.addr), "validator differs from the specified predicate on a derived address")
          \o When(DescOfPK(e.pk).sig = XMSSSig /\ ~e.vx, "derived XMSS address is not valid for XMSS")
          \o When(DescOfPK(e.pk).sig = XMSSSig /\ e.vd, "derived XMSS address is valid for Dilithium")

JudgeDAddr(e) ==
  When(e.addr # DilAddr(e.shake), "Dilithium address is not descriptor || SHAKE256(pk)[13:32]")
  \o When(~e.vd, "derived Dilithium address is not valid for Dilithium")
  \o When(e.vx, "derived Dilithium address is valid for XMSS")

JudgeLAddr(e) ==
  IF DescOfPK(e.pk).af # SHA256_2X
  THEN When(e.res = "ok", "legacy address derived for an unsupported address format")
  ELSE IF e.res # "ok" THEN <<"legacy address derivation refused a supported public key">>
  ELSE When(e.addr # LegacyAddr(e.pk, e.sha, e.sha35).v, "legacy address is not desc || SHA256(pk) || tail4(SHA256(first 35 bytes))")
       \o When(~e.vl, "derived legacy address is not accepted by the legacy validator")

JudgeLValid(e) ==
  When(e.vl # IsValidLegacy(e.addr, e.sha35), "legacy validator differs from: address format 0 and checksum = SHA256(first 35)[28:32]")

Judge(e) ==
  CASE e.ev = "desctable" -> JudgeDescTable(e)
    [] e.ev = "vpanic" -> <<"a validator panicked (validators answer true or false for every input)">>
    [] e.ev = "ctor" -> JudgeCtor(e)
    [] e.ev = "alias" -> When(~e.same, "a parsed descriptor changed when the buffer it was parsed from was overwritten (a descriptor is a value)")
    [] e.ev = "xaddr" -> JudgeXAddr(e)
    [] e.ev = "daddr" -> JudgeDAddr(e)
    [] e.ev = "laddr" -> JudgeLAddr(e)
    [] e.ev = "lvalid" -> JudgeLValid(e)
    [] OTHER -> <<"unknown event">>
DriftOf(e) == <<>>

VARIABLES l, viols, nviol, drift, counts, done
K == INSTANCE TraceKit WITH Judge <- Judge, Drift <- DriftOf
Spec == K!Spec
View == K!View
=============================================================================
