------------------------------ MODULE MCHintVec ------------------------------
(* Decode(Encode(h)) = h for every hint vector of weight <= HOMEGA (small     *)
(* parameters: all vectors).                                                  *)
EXTENDS HintCodec, TLC
VARIABLES h, phase
Rows == SUBSET (0..(HN - 1))
Init == h = <<>> /\ phase = 0
Next == /\ Len(h) < HK
        /\ \E r \in Rows : h' = Append(h, r)
        /\ phase' = IF Len(h) + 1 = HK THEN 1 ELSE 0
RoundTrip == (phase = 1 /\ Weight(h) <= HOMEGA) =>
  LET d == Decode(Encode(h)) IN d.ok /\ d.h = h /\ HintCanonical(Encode(h))
=============================================================================
