----------------------------- MODULE GenClasses -----------------------------
(* Writes the abstract input classes of EntryPoints.tla as JSON for the      *)
(* driver (spec -> code direction): run with INIT Init NEXT Next.            *)
EXTENDS EntryPoints, Json, IOUtils, SequencesExt
VARIABLE x
Init == x = 0
Next == /\ x = 0
        /\ x' = 1
        /\ JsonSerialize(IOEnv.VERIF_CLASSES, [xverify |-> SetToSeq(XVerifyClasses), dopenlens |-> SetToSeq(DOpenLens)])
=============================================================================
