----------------------------- MODULE TraceWrappers -----------------------------
(***************************************************************************)
(* Trace validation of the qrllib-js string wrappers (C16).  Each event is *)
(* one wrapper call with its hexadecimal string arguments (as bytes), the  *)
(* byte arrays the harness fed to the CORE function for the same input,    *)
(* the core's result and the wrapper's result.  The specification decodes  *)
(* the argument strings itself (Wrappers.tla), so the claim "this is what  *)
(* the core was given" is checked, not trusted.                            *)
(*   all arguments decode:  wrapper result = core result (addresses are    *)
(*                          compared as bytes: an optional 0x is removed)  *)
(*   some argument is not hexadecimal: wrapper returns false / ""          *)
(* The property speaks about input of the exact expected length; for valid *)
(* hex of another length the zero-pad/truncate behaviour of the code is    *)
(* modelled and differences are reported as drift only.                    *)
(***************************************************************************)
EXTENDS Wrappers, IOUtils, Json, TLC

Trace == ndJsonDeserialize(IOEnv.VERIF_TRACE)
ResultPath == IOEnv.VERIF_RESULT

When(c, s) == IF c THEN <<s>> ELSE <<>>

NArgs(e) == Len(e.args)
AllDecode(e) == \A k \in 1..NArgs(e) : Decoded(e.args[k]) # Invalid
ExactLength(e) == \A k \in 1..NArgs(e) : e.sizes[k] = 0 \/ Len(Decoded(e.args[k])) = e.sizes[k]

\* the harness's statement of what it fed to the core is what the specification derives
FedAsSpecified(e) == /\ Len(e.fed) = NArgs(e)
                     /\ \A k \in 1..NArgs(e) : e.fed[k] = Sized(Decoded(e.args[k]), e.sizes[k])

SameResult(w, c) ==
  \/ /\ w.kind = "bool" /\ c.kind = "bool" /\ w.b = c.b
  \/ /\ w.kind = "str" /\ c.kind = "str" /\ Strip0x(w.s) = c.s
  \/ /\ w.kind = "panic" /\ c.kind = "panic" /\ w.text = c.text

Negative(w) == (w.kind = "bool" /\ ~w.b) \/ (w.kind = "str" /\ w.s = <<>>)

Mismatch(e) ==
  IF AllDecode(e)
  THEN IF ~FedAsSpecified(e) THEN <<"harness fed the core something else than the decoded arguments (harness defect)">>
       ELSE When(~SameResult(e.wrap, e.core), "wrapper result differs from the core's result for the decoded bytes")
  ELSE When(~Negative(e.wrap), "wrapper did not return false / empty string for input that is not hexadecimal")

Judge(e) == IF AllDecode(e) /\ ~ExactLength(e) THEN <<>> ELSE Mismatch(e)
DriftOf(e) == IF AllDecode(e) /\ ~ExactLength(e) THEN Mismatch(e) ELSE <<>>

VARIABLES l, viols, nviol, drift, counts, done
K == INSTANCE TraceKit WITH Judge <- Judge, Drift <- DriftOf
Spec == K!Spec
View == K!View
=============================================================================
