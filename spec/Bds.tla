------------------------------- MODULE Bds -------------------------------
(***************************************************************************)
(* The BDS tree traversal of go-qrllib (xmss/xmss_fast.go, xmss/xmss.go,   *)
(* xmss/bds_state.go), transcribed operator by operator, over a SYMBOLIC   *)
(* Merkle tree.                                                            *)
(*                                                                         *)
(* A node of the tree is the pair <<height, index>>.  ZERO is the content  *)
(* of a freshly made Go slice (32 zero bytes), BAD is "some 32 bytes that  *)
(* are not a node of this tree".  The keyed, address-separated hash hashH  *)
(* is modelled as injective: HashH(l, r, ah, ai) is the parent <<ah+1,ai>> *)
(* exactly when l and r are its two children in the right order and the    *)
(* address (tree height ah, tree index ai) is the one the scheme           *)
(* prescribes for that parent; every other call yields BAD.  The control   *)
(* flow of the traversal depends only on (H, K, leaf index), never on hash *)
(* values, which is why this abstraction decides the traversal for every   *)
(* seed and every hash function.                                           *)
(*                                                                         *)
(* One operator per Go function, same argument order, same order of reads  *)
(* and writes:                                                             *)
(*   NewBds         NewBDSState              bds_state.go:22               *)
(*   Setup          treeHashSetup            xmss_fast.go:38               *)
(*   Round          bdsRound                 xmss_fast.go:260              *)
(*   MinOnStack     treeHashMinHeightOnStack xmss_fast.go:368              *)
(*   THUpdate       treeHashUpdate           xmss_fast.go:378              *)
(*   THUpdates      bdsTreeHashUpdate        xmss_fast.go:335              *)
(*                                                                         *)
(* Counted for-loops are written with FoldLeft (SequencesExt; evaluated    *)
(* iteratively by TLC, every accumulator a computed value), data-dependent *)
(* while-loops as RECURSIVE operators.  TLC re-evaluates the arguments of  *)
(* RECURSIVE operators at every use, so long folds must not be recursive.  *)
(***************************************************************************)
EXTENDS Integers, Sequences, FiniteSets, SequencesExt, TLC

CONSTANTS H,    \* tree height (even, > K)
          K     \* BDS parameter (WOTSParamK = 2 in the library)

ASSUME HKAssumption == H \in Nat /\ K \in Nat /\ K >= 2 /\ H > K /\ (H - K) % 2 = 0

N == 2^H                              \* number of leaves / one-time keys

ZERO == <<-1, -1>>
BAD  == <<-2, -2>>
Leaf(i) == <<0, i>>
IsNode(x) == x[1] >= 0

Shr(x, n) == x \div (2^n)
Bit(x, n) == Shr(x, n) % 2

HashH(l, r, ah, ai) ==
  IF l = <<ah, 2*ai>> /\ r = <<ah, 2*ai + 1>> THEN <<ah + 1, ai>> ELSE BAD

\* reference authentication path: sibling of the ancestor of leaf i at height j
AuthNode(i, j) == <<j, IF Shr(i, j) % 2 = 0 THEN Shr(i, j) + 1 ELSE Shr(i, j) - 1>>
AuthPath(i) == [j \in 0..H-1 |-> AuthNode(i, j)]

\* validateAuthPath (xmss.go:336) on the symbolic algebra: recompute the root
\* from a leaf value, its index and an authentication path
RECURSIVE ClimbFrom(_, _, _, _)
ClimbFrom(node, leafIdx, auth, j) ==
  IF j = H THEN node
  ELSE LET up == IF Bit(leafIdx, j) = 1
                 THEN HashH(auth[j], node, j, Shr(leafIdx, j + 1))
                 ELSE HashH(node, auth[j], j, Shr(leafIdx, j + 1))
       IN ClimbFrom(up, leafIdx, auth, j + 1)
RootFromPath(leafIdx, auth) == ClimbFrom(Leaf(leafIdx), leafIdx, auth, 0)
ROOT == <<H, 0>>

---------------------------------------------------------------------------
(* bds_state.go *)

THZero == [h |-> 0, nextIdx |-> 0, stackUsage |-> 0, completed |-> 0, node |-> ZERO]

RetainLen == 2^K - K - 1

NewBds ==
  [ stack       |-> [i \in 0..H |-> ZERO],
    stackOffset |-> 0,
    stackLevels |-> [i \in 0..H |-> 0],
    auth        |-> [i \in 0..H-1 |-> ZERO],
    keep        |-> [i \in 0..(H \div 2)-1 |-> ZERO],
    th          |-> [i \in 0..H-K-1 |-> THZero],
    retain      |-> [i \in 0..RetainLen-1 |-> ZERO] ]

RetainSlot(nodeH, x) == 2^(H - 1 - nodeH) + nodeH - H + Shr(x - 3, 1)

---------------------------------------------------------------------------
(* treeHashSetup: builds the whole tree once with a LOCAL stack of H+1     *)
(* slots, filling auth / treeHash[].node / retain on the way.  c is the    *)
(* loop context [b, st, lv, off].                                          *)

RECURSIVE SetupMerge(_, _, _)
SetupMerge(c, index, i) ==
  IF c.off > 1 /\ c.lv[c.off-1] = c.lv[c.off-2] THEN
    LET nodeH == c.lv[c.off-1]
        top   == c.st[c.off-1]
        x     == Shr(i, nodeH)
        b1 == IF x = 1 THEN [c.b EXCEPT !.auth[nodeH] = top]
              ELSE IF nodeH < H-K /\ x = 3 THEN [c.b EXCEPT !.th[nodeH].node = top]
              ELSE IF nodeH >= H-K THEN [c.b EXCEPT !.retain[RetainSlot(nodeH, x)] = top]
              ELSE c.b
        merged == HashH(c.st[c.off-2], c.st[c.off-1], nodeH, Shr(index, nodeH + 1))
    IN SetupMerge([b   |-> b1,
                   st  |-> [c.st EXCEPT ![c.off-2] = merged],
                   lv  |-> [c.lv EXCEPT ![c.off-2] = @ + 1],
                   off |-> c.off - 1], index, i)
  ELSE c

SetupLeaf(c, index) ==
  LET i    == index        \* the code keeps a separate counter i; index starts at 0 so i = index
      st1  == [c.st EXCEPT ![c.off] = Leaf(index)]
      lv1  == [c.lv EXCEPT ![c.off] = 0]
      off1 == c.off + 1
      \* xmss_fast.go:78-80 copies the slot ABOVE the new stack top (stale or zero);
      \* transcribed as is: it is overwritten by the (i>>0)==3 branch of the merge loop
      b1   == IF H-K > 0 /\ i = 3 THEN [c.b EXCEPT !.th[0].node = st1[off1]] ELSE c.b
  IN SetupMerge([b |-> b1, st |-> st1, lv |-> lv1, off |-> off1], index, i)

Upto(n) == [k \in 1..n |-> k - 1]          \* the sequence <<0, 1, .., n-1>>
FromTo(a, b) == [k \in 1..(b - a) |-> a + k - 1]   \* <<a, .., b-1>>

SetupLoop(c, index) == FoldLeft(LAMBDA acc, i : SetupLeaf(acc, i), c, FromTo(index, N))

\* (an operator with a parameter: TLC evaluates zero-arity constant definitions when it starts, and a
\* trace specification for a tall tree must not pay for 2^H leaves it never asks for)
SetupOf(unused) ==
  LET b0 == [NewBds EXCEPT !.th = [i \in 0..H-K-1 |-> [THZero EXCEPT !.h = i, !.completed = 1]]]
      c  == SetupLoop([b |-> b0, st |-> [i \in 0..H |-> ZERO], lv |-> [i \in 0..H |-> 0], off |-> 0], 0)
  IN [bds |-> c.b, root |-> c.st[0]]

\* Closed form of the state treeHashSetup leaves behind (proved equal to Setup.bds
\* by TLC for the heights of cfg/BdsClosed*.cfg; used as initial state where the
\* recursive Setup is too deep for TLC).
ClosedInit ==
  [ stack       |-> [i \in 0..H |-> ZERO],
    stackOffset |-> 0,
    stackLevels |-> [i \in 0..H |-> 0],
    auth        |-> [i \in 0..H-1 |-> <<i, 1>>],
    keep        |-> [i \in 0..(H \div 2)-1 |-> ZERO],
    th          |-> [i \in 0..H-K-1 |-> [h |-> i, nextIdx |-> 0, stackUsage |-> 0, completed |-> 1, node |-> <<i, 3>>]],
    retain      |-> [s \in 0..RetainLen-1 |->
                       \* row nodeH in H-K..H-2 holds the right-hand nodes 3, 5, .. of that level
                       LET lvl == CHOOSE nodeH \in (H-K)..(H-2) :
                                     \E x \in {y \in 3..(2^(H-nodeH) - 1) : y % 2 = 1} : RetainSlot(nodeH, x) = s
                           x   == CHOOSE x \in {y \in 3..(2^(H-lvl) - 1) : y % 2 = 1} : RetainSlot(lvl, x) = s
                       IN <<lvl, x>> ] ]

---------------------------------------------------------------------------
(* bdsRound *)

RECURSIVE Tau(_, _)
Tau(leafIdx, i) == IF i >= H THEN H ELSE IF Bit(leafIdx, i) = 0 THEN i ELSE Tau(leafIdx, i + 1)

Round(b, leafIdx) ==
  LET tau   == Tau(leafIdx, 0)
      buf0  == IF tau > 0 THEN b.auth[tau-1] ELSE ZERO
      buf1  == IF tau > 0 THEN b.keep[Shr(tau-1, 1)] ELSE ZERO
      keep1 == IF Bit(leafIdx, tau + 1) = 0 /\ tau < H-1
               THEN [b.keep EXCEPT ![Shr(tau, 1)] = b.auth[tau]] ELSE b.keep
  IN IF tau = 0 THEN [b EXCEPT !.keep = keep1, !.auth[0] = Leaf(leafIdx)]
     ELSE
       LET authT == [b.auth EXCEPT ![tau] = HashH(buf0, buf1, tau - 1, Shr(leafIdx, tau))]
           auth2 == [i \in 0..H-1 |->
                      IF i < tau THEN
                         IF i < H-K THEN b.th[i].node
                         ELSE b.retain[2^(H-1-i) + i - H + Shr(Shr(leafIdx, i) - 1, 1)]
                      ELSE authT[i]]
           cmp == IF tau < H-K THEN tau ELSE H-K
           th2 == [i \in 0..H-K-1 |->
                     IF i < cmp /\ leafIdx + 1 + 3*(2^i) < N
                     THEN [b.th[i] EXCEPT !.h = i, !.nextIdx = leafIdx + 1 + 3*(2^i),
                                          !.completed = 0, !.stackUsage = 0]
                     ELSE b.th[i]]
       IN [b EXCEPT !.keep = keep1, !.auth = auth2, !.th = th2]

---------------------------------------------------------------------------
(* bdsTreeHashUpdate / treeHashUpdate / treeHashMinHeightOnStack *)

MinOnStack(b, usage, i0, r0) ==
  FoldLeft(LAMBDA r, i : IF b.stackLevels[b.stackOffset-i-1] < r THEN b.stackLevels[b.stackOffset-i-1] ELSE r,
           r0, FromTo(i0, usage))

Low(b, i) == IF b.th[i].completed = 1 THEN H
             ELSE IF b.th[i].stackUsage = 0 THEN i
             ELSE MinOnStack(b, b.th[i].stackUsage, 0, H)

\* the inner for-loop of bdsTreeHashUpdate: returns the chosen level (H-K: none)
PickLevel(b, i0, level0, lmin0) ==
  FoldLeft(LAMBDA acc, i : LET low == Low(b, i)
                           IN IF low < acc.lmin THEN [level |-> i, lmin |-> low] ELSE acc,
           [level |-> level0, lmin |-> lmin0], FromTo(i0, H-K)).level

RECURSIVE THMerge(_, _, _, _)
THMerge(b, lvl, node, nh) ==
  IF b.th[lvl].stackUsage > 0 /\ b.stackLevels[b.stackOffset-1] = nh THEN
     THMerge([b EXCEPT !.th[lvl].stackUsage = @ - 1, !.stackOffset = @ - 1], lvl,
             HashH(b.stack[b.stackOffset-1], node, nh, Shr(b.th[lvl].nextIdx, nh + 1)), nh + 1)
  ELSE [b |-> b, node |-> node, nh |-> nh]

THUpdate(b, lvl) ==
  LET m  == THMerge(b, lvl, Leaf(b.th[lvl].nextIdx), 0)
      b1 == m.b
  IN IF m.nh = b1.th[lvl].h
     THEN [b1 EXCEPT !.th[lvl].node = m.node, !.th[lvl].completed = 1]
     ELSE [b1 EXCEPT !.stack[b1.stackOffset] = m.node, !.th[lvl].stackUsage = @ + 1,
                     !.stackLevels[b1.stackOffset] = m.nh, !.stackOffset = @ + 1,
                     !.th[lvl].nextIdx = @ + 1]

\* for j < updates: pick, break if none, update.  After a break the remaining
\* iterations are no-ops (the pick depends only on the state, which no longer changes).
THUpdates(b0, n) ==
  FoldLeft(LAMBDA b, j : LET level == PickLevel(b, 0, H-K, H)
                         IN IF level = H-K THEN b ELSE THUpdate(b, level),
           b0, Upto(n))

\* one traversal step: the pair of calls that appears twice in the library
Advance(b, leafIdx) == THUpdates(Round(b, leafIdx), Shr(H-K, 1))

---------------------------------------------------------------------------
(* state predicates *)

AuthOKAt(b, i) == \A j \in 0..H-1 : b.auth[j] = AuthNode(i, j)

NoBad(b) == /\ \A j \in 0..H-1 : b.auth[j] # BAD
            /\ \A j \in 0..H-K-1 : b.th[j].node # BAD
            /\ \A j \in 0..H : b.stack[j] # BAD
            /\ \A j \in 0..(H \div 2)-1 : b.keep[j] # BAD
            /\ \A j \in 0..RetainLen-1 : b.retain[j] # BAD

StackInBounds(b) == b.stackOffset \in 0..H

\* every running treehash instance owns exactly its stackUsage topmost... (sum of usages = offset)
\* the part of the state that can still influence a future signature: stack slots
\* above the offset, the node of an unfinished treehash instance and the progress
\* counters of a finished one are dead
LiveView(b) ==
  [ off    |-> b.stackOffset,
    stack  |-> [i \in 0..H |-> IF i < b.stackOffset THEN <<b.stack[i], b.stackLevels[i]>> ELSE <<ZERO, 0>>],
    auth   |-> b.auth,
    keep   |-> b.keep,
    retain |-> b.retain,
    th     |-> [i \in 0..H-K-1 |->
                  IF b.th[i].completed = 1
                  THEN [h |-> b.th[i].h, completed |-> 1, node |-> b.th[i].node, nextIdx |-> 0, stackUsage |-> 0]
                  ELSE [h |-> b.th[i].h, completed |-> 0, node |-> ZERO,
                        nextIdx |-> b.th[i].nextIdx, stackUsage |-> b.th[i].stackUsage]] ]

SumUsage(b) == FoldLeft(LAMBDA acc, i : acc + b.th[i].stackUsage, 0, Upto(H-K))
StackAccounted(b) == SumUsage(b) = b.stackOffset
=============================================================================
