---------------------------- MODULE MCDilithiumEq ----------------------------
(* The butterfly network NTT of DilithiumEq.tla equals the evaluation        *)
(* definition on every unit vector X^n (both maps are linear), and the       *)
(* inverse formula inverts it.  HashOracle is not used here.                 *)
EXTENDS DilithiumEq
CONSTANT BasisWidth      \* 16 = all 256 unit vectors, 4 = a quarter of them
VARIABLES n, phase
Init == n = 0 /\ phase = 0
\* two steps so that TLC's workers share the 256 unit vectors
Next == \/ phase = 0 /\ n' \in {16 * b : b \in 0..15} /\ phase' = 2
        \/ phase = 2 /\ n' \in n..(n + BasisWidth - 1) /\ phase' = 1
Unit(k) == [m \in 1..NN |-> IF m = k + 1 THEN 1 ELSE 0]
NTTOnBasis == phase = 1 =>
  /\ NTT(Unit(n)) = [m \in 1..NN |-> PowMod(EvalPoints[m], n)]
  /\ \A k \in {0, 1, n, 255} : InvNTTAt(NTT(Unit(n)), k) = (IF k = n THEN 1 ELSE 0)
  /\ InvNTT(NTT(Unit(n))) = Unit(n)          \* the inverse network inverts it (again on a basis of a linear map)
PointsAreRoots == phase = 0 => \A m \in 1..NN : PowMod(EvalPoints[m], 256) = Q - 1 /\ MulMod(EvalPoints[m], InvPoints[m]) = 1
=============================================================================
