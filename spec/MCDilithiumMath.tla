--------------------------- MODULE MCDilithiumMath ---------------------------
(***************************************************************************)
(* "trick = definition" on the whole domain, and the hint lemma.           *)
(* The operand a is enumerated in three phases (block, sub-block, value)   *)
(* so that TLC's workers share the work.  Which sets are enumerated is     *)
(* chosen by the constants (quick: neighbourhoods of every breakpoint plus *)
(* a stride; thorough: every residue).                                     *)
(***************************************************************************)
EXTENDS DilithiumMath, TLC

CONSTANTS Mode,      \* "residues" | "reduce32" | "hint" | "lemma"
          Stride     \* 1 = everything

VARIABLES a, b, c, phase
vars == <<a, b, c, phase>>

Blocks == 0..((Q - 1) \div 65536)       \* a = blk * 65536 + off

Near(x, S, r) == \E s \in S : Abs(x - s) <= r

\* operand selection inside a block
Pick(x) == \/ Stride = 1
           \/ x % Stride = 0
           \/ Near(x % ALPHA, {0, GAMMA2, GAMMA2 + 1, ALPHA - 1}, 3)     \* decompose breakpoints
           \/ Near(x % 8192, {0, 4096, 4097, 8191}, 2)                  \* power2round breakpoints
           \/ x >= Q - 1 - 3 \/ x <= 3
           \/ Near(x, {(Q - 1) \div 2, (Q - 1) \div 8, GAMMA1 - BETA, GAMMA2 - BETA}, 2)

Init == a = 0 /\ b = 0 /\ c = 0 /\ phase = 0

NextResidues ==
  \/ phase = 0 /\ b' \in Blocks /\ phase' = 1 /\ UNCHANGED <<a, c>>
  \/ phase = 1 /\ a' \in {x \in (b * 65536)..(b * 65536 + 65535) : x < Q /\ Pick(x)} /\ phase' = 2 /\ UNCHANGED <<b, c>>

\* reduce32 over int32: a = b * 2^16 + off, b in -32768..32767 (documented domain |a| <= 2^31 - 2^22 - 1)
R32Offs == {x \in 0..65535 : Stride = 1 \/ x % Stride = 0 \/ x < 2 \/ x > 65533}
NextReduce32 ==
  \/ phase = 0 /\ b' \in -32704..32703 /\ phase' = 1 /\ UNCHANGED <<a, c>>
  \/ phase = 1 /\ a' \in {b * 65536 + o : o \in R32Offs} /\ phase' = 2 /\ UNCHANGED <<b, c>>

\* hint domain: a1 in 0..15, a0 around the thresholds and on a stride over (-2*gamma2, 2*gamma2)
\* (the operand is chosen block by block: one set of 4*gamma2 values exceeds TLC's bound on enumerated sets)
HintLo == -(2 * GAMMA2) + 1
HintBlocks == 0..((4 * GAMMA2 - 2) \div 65536)
NextHint ==
  \/ phase = 0 /\ b' \in 0..15 /\ c' \in HintBlocks /\ phase' = 1 /\ UNCHANGED a
  \/ phase = 1 /\ a' \in {x \in (HintLo + c * 65536)..(HintLo + c * 65536 + 65535) :
                            /\ x <= 2 * GAMMA2 - 1
                            /\ (Stride = 1 \/ x % Stride = 0 \/ Near(x, {-GAMMA2, GAMMA2, 0}, 4) \/ Abs(x) > 2 * GAMMA2 - 4)}
     /\ phase' = 2 /\ UNCHANGED <<b, c>>

\* lemma: w = a, cs2 = b, ct0 = c
Cs2Set == {-BETA, -BETA + 1, -1, 0, 1, BETA - 1, BETA}
Ct0Set == {-(GAMMA2 - 1), -(GAMMA2 - 2), -BETA, -1, 0, 1, BETA, GAMMA2 - 2, GAMMA2 - 1}
\* w: around every breakpoint of every one of the 16 high-bit intervals, plus a stride
LemmaWs == ({k * ALPHA + s + e : k \in 0..16, s \in {0, GAMMA2, GAMMA2 + 1, GAMMA2 - BETA, ALPHA - GAMMA2 + BETA, ALPHA - 1}, e \in -2..2}
            \cup {i * Stride : i \in 0..((Q - 1) \div Stride)} \cup {Q - 3, Q - 2, Q - 1}) \cap (0..(Q - 1))
NextLemma ==
  \/ phase = 0 /\ b' \in Cs2Set /\ c' \in Ct0Set /\ phase' = 1 /\ UNCHANGED a
  \/ phase = 1 /\ a' \in LemmaWs /\ phase' = 2 /\ UNCHANGED <<b, c>>

Next == CASE Mode = "residues" -> NextResidues
          [] Mode = "reduce32" -> NextReduce32
          [] Mode = "hint" -> NextHint
          [] Mode = "lemma" -> NextLemma

---------------------------------------------------------------------------
Active(m) == Mode = m /\ phase = 2

Power2RoundOK == Active("residues") =>
  /\ Power2RoundImpl(a) = Power2RoundDef(a)
  /\ LET r == Power2RoundImpl(a) IN r.hi * 2^D + r.lo = a /\ r.lo \in (-(2^(D-1)) + 1)..(2^(D-1)) /\ r.hi \in 0..1023

DecomposeOK == Active("residues") =>
  /\ DecomposeImpl(a) = DecomposeDef(a)
  /\ LET r == DecomposeImpl(a) IN /\ (r.hi * ALPHA + r.lo) % Q = a
                                  /\ r.hi \in 0..15
                                  /\ r.lo \in (-GAMMA2)..GAMMA2

UseHintOK == Active("residues") =>
  /\ UseHintImpl(a, 0) = UseHintDef(0, a)
  /\ UseHintImpl(a, 1) = UseHintDef(1, a)
  /\ UseHintImpl(a, 1) \in 0..15

CAddQOK == Active("residues") =>
  /\ CAddQImpl(a) = a                     \* non-negative: unchanged
  /\ a > 0 => (CAddQImpl(-a) = Q - a)     \* (-q, 0): plus q
  /\ CAddQImpl(a - Q) \in 0..(Q-1) /\ (CAddQImpl(a - Q) - (a - Q)) % Q = 0

ChkNormOK == Active("residues") =>
  \A B \in {GAMMA1 - BETA, GAMMA2 - BETA, GAMMA2, (Q - 1) \div 8} :
     /\ (ChkNormImpl(a, B) = 1) <=> NormExceeds(a, B) \/ (a > (Q-1) \div 2 /\ a >= B)
     \* polyChkNorm takes |a| of the int32 itself: it equals the centred norm exactly when the
     \* coefficient is already centred, |a| <= (q-1)/2 (the callers reduce first)
     /\ a <= (Q - 1) \div 2 => ((ChkNormImpl(a, B) = 1) <=> NormExceeds(a, B))
     /\ a <= (Q - 1) \div 2 => ((ChkNormImpl(-a, B) = 1) <=> NormExceeds(-a, B))
     /\ ChkNormImpl(a, (Q - 1) \div 8 + 1) = 1

Reduce32OK == Active("reduce32") =>
  LET r == Reduce32Impl(a)
  IN /\ (r - a) % Q = 0
     /\ r >= -6283009 /\ r <= 6283008     \* the reference comment says 6283007; 6283008 is attained at a = 2^31 - 2^22 - 1

MakeHintOK == Active("hint") => MakeHintImpl(a, b) = MakeHintDef(a, b)

\* the reason an accepted signature verifies (coefficient-wise):
\* w in [0,q), (w1, w0) = Decompose(w); if |w0 - cs2| < gamma2 - beta and |ct0| < gamma2 then
\* UseHint(MakeHint(w0 - cs2 + ct0, w1), w - cs2 + ct0) = w1
HintLemma == Active("lemma") =>
  LET d  == DecomposeDef(a)
      lo == d.lo - b
  IN (Abs(lo) < GAMMA2 - BETA) =>
        LET h == MakeHintImpl(lo + c, d.hi)
            v == (a - b + c) % Q
        IN UseHintDef(h, v) = d.hi
=============================================================================
