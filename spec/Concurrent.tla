------------------------------ MODULE Concurrent ------------------------------
(***************************************************************************)
(* Goroutines calling go-qrllib concurrently (C15).                        *)
(*                                                                         *)
(* Every goroutine g runs a program: a sequence of calls.  A call is       *)
(*   [kind |-> "stateless", op |-> o]   verification, address derivation,  *)
(*        mnemonic coding, descriptor handling, Dilithium signing with the *)
(*        SHARED key: the result is a function of the arguments only;      *)
(*   [kind |-> "decode", op |-> w]      mnemonic decoding of word w: needs *)
(*        the word -> index lookup table (misc/helper.go:186-194);         *)
(*   [kind |-> "sign"]                  Sign on the goroutine's OWN XMSS   *)
(*        key: emits the key's index and increments it.                    *)
(* A call is two steps (Call, Return) so that calls overlap.               *)
(*                                                                         *)
(* The library today builds the lookup table inside every call             *)
(* (CACHE = "none").  The FIXME in the code asks for a table built once;   *)
(* CACHE = "locked" builds it under a lock before use, CACHE = "racy"      *)
(* publishes the table before it is filled.  HistoryFree holds for "none"  *)
(* and "locked" in every interleaving and TLC finds the stale read for     *)
(* "racy" - the control that shows the invariant can fail.                 *)
(***************************************************************************)
EXTENDS Integers, Sequences, FiniteSets, TLC

CONSTANTS G,           \* goroutines
          Prog,        \* g -> sequence of calls
          Words,       \* the word list (a small set)
          CACHE        \* "none" | "locked" | "racy"

VARIABLES pc,        \* g -> index of the next call (1-based)
          inflight,  \* g -> the call in progress, or NoCall
          view,      \* g -> table contents the call in progress works with
          table,     \* the shared lookup table: [state, words]
          xidx,      \* g -> index of g's private XMSS key
          returned   \* set of [g, n, call, res]

cvars == <<pc, inflight, view, table, xidx, returned>>

NoCall == [kind |-> "none"]

\* sequential meaning of a call
SeqResult(call, idx) ==
  CASE call.kind = "stateless" -> <<"f", call.op>>
    [] call.kind = "decode"    -> <<"index-of", call.op>>
    [] call.kind = "sign"      -> <<"sig-at", idx>>

Init == /\ pc = [g \in G |-> 1]
        /\ inflight = [g \in G |-> NoCall]
        /\ view = [g \in G |-> {}]
        /\ table = [state |-> "absent", words |-> {}]
        /\ xidx = [g \in G |-> 0]
        /\ returned = {}

Call(g) ==
  /\ inflight[g] = NoCall
  /\ pc[g] <= Len(Prog[g])
  /\ LET c == Prog[g][pc[g]] IN
     /\ inflight' = [inflight EXCEPT ![g] = c]
     /\ IF c.kind # "decode" THEN UNCHANGED <<table, view>>
        ELSE CASE CACHE = "none" ->           \* a private table, built completely inside the call
                    /\ view' = [view EXCEPT ![g] = Words] /\ UNCHANGED table
               [] CACHE = "locked" ->         \* built once, atomically, before anyone reads it
                    /\ table' = [state |-> "ready", words |-> Words]
                    /\ view' = [view EXCEPT ![g] = Words]
               [] CACHE = "racy" ->           \* published when absent, filled later; readers take what is there
                    /\ table' = IF table.state = "absent" THEN [state |-> "filling", words |-> {}] ELSE table
                    /\ view' = [view EXCEPT ![g] = table.words]
  /\ UNCHANGED <<pc, xidx, returned>>

\* CACHE = "racy" only: the goroutine that published the table fills it word by word
Fill == /\ CACHE = "racy" /\ table.state = "filling"
        /\ \E w \in Words \ table.words :
             table' = [state |-> IF table.words \cup {w} = Words THEN "ready" ELSE "filling", words |-> table.words \cup {w}]
        /\ UNCHANGED <<pc, inflight, view, xidx, returned>>

Return(g) ==
  /\ inflight[g] # NoCall
  /\ LET c == inflight[g]
         res == CASE c.kind = "decode" -> IF c.op \in view[g] THEN <<"index-of", c.op>> ELSE <<"invalid word", c.op>>
                  [] OTHER -> SeqResult(c, xidx[g])
     IN /\ returned' = returned \cup {[g |-> g, n |-> pc[g], call |-> c, res |-> res, idx |-> xidx[g]]}
        /\ xidx' = IF c.kind = "sign" THEN [xidx EXCEPT ![g] = @ + 1] ELSE xidx
  /\ inflight' = [inflight EXCEPT ![g] = NoCall]
  /\ pc' = [pc EXCEPT ![g] = @ + 1]
  /\ UNCHANGED <<table, view>>

Next == (\E g \in G : Call(g) \/ Return(g)) \/ Fill
Spec == Init /\ [][Next]_cvars

---------------------------------------------------------------------------
\* every call returns what it returns when run alone; private keys count independently
HistoryFree == \A r \in returned : r.res = SeqResult(r.call, r.idx)

PrivateKeysIndependent ==
  \A g \in G : xidx[g] = Cardinality({r \in returned : r.g = g /\ r.call.kind = "sign"})

\* per goroutine, the signatures of its own key carry 0, 1, 2, .. in program order
SignIndicesInOrder ==
  \A r \in returned : r.call.kind = "sign" =>
     r.idx = Cardinality({s \in returned : s.g = r.g /\ s.call.kind = "sign" /\ s.n < r.n})
=============================================================================
