---------------------------- MODULE TraceMnemonic ----------------------------
(***************************************************************************)
(* Trace validation of the real mnemonic codec (C10).  The word list is    *)
(* the library's own list, dumped as code points; events are calls of      *)
(* SeedBinToMnemonic / ExtendedSeedBinToMnemonic ("enc") and of            *)
(* MnemonicToSeedBin / MnemonicToExtendedSeedBin ("dec") with their        *)
(* arguments and results, plus (thorough tier) the complete table of the   *)
(* length-generic codec on one 3-byte block, run-length compressed.        *)
(* Every event is judged by Mnemonic.tla applied to the logged argument.   *)
(***************************************************************************)
EXTENDS Mnemonic, IOUtils, TLC, Json

Trace == ndJsonDeserialize(IOEnv.VERIF_TRACE)
ResultPath == IOEnv.VERIF_RESULT
WordList == JsonDeserialize(IOEnv.VERIF_WORDLIST)

WordSet == {WordList[i] : i \in 1..Len(WordList)}
WordIndex == [w \in WordSet |-> (CHOOSE i \in 1..Len(WordList) : WordList[i] = w) - 1]

When(c, s) == IF c THEN <<s>> ELSE <<>>

BlockStride == IF "VERIF_BLOCKSTRIDE" \in DOMAIN IOEnv THEN atoi(IOEnv.VERIF_BLOCKSTRIDE) ELSE 1

JudgeEnc(e) ==
  IF e.res # "ok" THEN <<"encoder refused a seed of the right size">>
  ELSE When(e.phrase # Render(Enc(e.bytes), WordList),
            "mnemonic is not the specified encoding of the bytes (words joined by single spaces)")

JudgeDec(e) ==
  LET exp == DecodeSized(e.phrase, WordIndex, e.size)
  IN IF exp.kind = "value"
     THEN IF e.res # "ok" THEN <<"well-formed phrase was refused">>
          ELSE When(e.bytes # exp.bytes, "phrase decoded to other bytes than the specification gives")
     ELSE When(e.res = "ok", "malformed phrase was decoded instead of refused")

\* block v = b0*65536 + b1*256 + b2  <->  words (v \div 4096, v % 4096)
Checked(lo, hi) == {v \in lo..hi : v = lo \/ v = hi \/ (v - lo) % BlockStride = 0}
JudgeEncBlock(e) ==
  When(\E v \in Checked(e.lo, e.hi) :
          Enc(<<v \div 65536, (v \div 256) % 256, v % 256>>) # <<e.w1, e.w2lo + (v - e.lo)>>,
       "length-generic encoder: a 3-byte block is not encoded as specified")
JudgeDecBlock(e) ==
  When(\E v \in Checked(e.lo, e.hi) :
          DecWords(<<v \div 4096, v % 4096>>) # <<e.b0, e.b1, e.b2lo + (v - e.lo)>>,
       "length-generic decoder: a word pair is not decoded as specified")

\* the library's word list: 4096 distinct, non-empty, lower-case, whitespace-free words
JudgeWordList(e) ==
  When(Len(WordList) # 4096, "word list does not have 4096 entries")
  \o When(Cardinality(WordSet) # Len(WordList), "word list contains a duplicate word: two 12-bit values share a mnemonic word")
  \o When(\E i \in 1..Len(WordList) : Len(WordList[i]) = 0 \/ \E j \in 1..Len(WordList[i]) : WordList[i][j] \notin 97..122,
          "word list contains a word that is empty or not all lower-case letters")

Judge(e) ==
  CASE e.ev = "wordlist" -> JudgeWordList(e)
    [] e.ev = "enc" -> JudgeEnc(e)
    [] e.ev = "dec" -> JudgeDec(e)
    [] e.ev = "encblock" -> JudgeEncBlock(e)
    [] e.ev = "decblock" -> JudgeDecBlock(e)
    [] OTHER -> <<"unknown event">>

\* the text of a refusal is not part of the property (TLC strings are opaque, so it
\* is not compared); nothing is reported as drift here
DriftOf(e) == <<>>

VARIABLES l, viols, nviol, drift, counts, done
K == INSTANCE TraceKit WITH Judge <- Judge, Drift <- DriftOf
Spec == K!Spec
View == K!View

=============================================================================
