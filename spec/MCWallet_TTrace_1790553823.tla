---- MODULE MCWallet_TTrace_1790553823 ----
EXTENDS Sequences, TLCExt, MCWallet, Toolbox, Naturals, TLC

_expression ==
    LET MCWallet_TEExpression == INSTANCE MCWallet_TEExpression
    IN MCWallet_TEExpression!expression
----

_trace ==
    LET MCWallet_TETrace == INSTANCE MCWallet_TETrace
    IN MCWallet_TETrace!trace
----

_inv ==
    ~(
        TLCGet("level") = Len(_TETrace)
        /\
        obj = ([orig |-> [idx |-> 64, bds |-> [auth |-> (0 :> <<0, 62>> @@ 1 :> <<1, 30>> @@ 2 :> <<2, 14>> @@ 3 :> <<3, 6>> @@ 4 :> <<4, 2>> @@ 5 :> <<5, 0>>), stack |-> (0 :> <<0, 62>> @@ 1 :> <<0, 62>> @@ 2 :> <<0, 62>> @@ 3 :> <<-1, -1>> @@ 4 :> <<-1, -1>> @@ 5 :> <<-1, -1>> @@ 6 :> <<-1, -1>>), stackOffset |-> 0, stackLevels |-> (0 :> 0 @@ 1 :> 0 @@ 2 :> 0 @@ 3 :> 0 @@ 4 :> 0 @@ 5 :> 0 @@ 6 :> 0), keep |-> (0 :> <<0, 61>> @@ 1 :> <<2, 13>> @@ 2 :> <<4, 1>>), th |-> (0 :> [h |-> 0, node |-> <<0, 63>>, nextIdx |-> 63, stackUsage |-> 0, completed |-> 1] @@ 1 :> [h |-> 1, node |-> <<1, 31>>, nextIdx |-> 63, stackUsage |-> 0, completed |-> 1] @@ 2 :> [h |-> 2, node |-> <<2, 15>>, nextIdx |-> 63, stackUsage |-> 0, completed |-> 1] @@ 3 :> [h |-> 3, node |-> <<3, 7>>, nextIdx |-> 63, stackUsage |-> 0, completed |-> 1]), retain |-> (0 :> <<4, 3>>)], params |-> [hf |-> 2, sig |-> 0, height |-> 6, af |-> 0]], rebuilt |-> [idx |-> 0, bds |-> [auth |-> (0 :> <<0, 1>> @@ 1 :> <<1, 1>> @@ 2 :> <<2, 1>> @@ 3 :> <<3, 1>> @@ 4 :> <<4, 1>> @@ 5 :> <<5, 1>>), stack |-> (0 :> <<-1, -1>> @@ 1 :> <<-1, -1>> @@ 2 :> <<-1, -1>> @@ 3 :> <<-1, -1>> @@ 4 :> <<-1, -1>> @@ 5 :> <<-1, -1>> @@ 6 :> <<-1, -1>>), stackOffset |-> 0, stackLevels |-> (0 :> 0 @@ 1 :> 0 @@ 2 :> 0 @@ 3 :> 0 @@ 4 :> 0 @@ 5 :> 0 @@ 6 :> 0), keep |-> (0 :> <<-1, -1>> @@ 1 :> <<-1, -1>> @@ 2 :> <<-1, -1>>), th |-> (0 :> [h |-> 0, node |-> <<0, 3>>, nextIdx |-> 0, stackUsage |-> 0, completed |-> 1] @@ 1 :> [h |-> 1, node |-> <<1, 3>>, nextIdx |-> 0, stackUsage |-> 0, completed |-> 1] @@ 2 :> [h |-> 2, node |-> <<2, 3>>, nextIdx |-> 0, stackUsage |-> 0, completed |-> 1] @@ 3 :> [h |-> 3, node |-> <<3, 3>>, nextIdx |-> 0, stackUsage |-> 0, completed |-> 1]), retain |-> (0 :> <<4, 3>>)], params |-> [hf |-> 2, sig |-> 0, height |-> 6, af |-> 0]]])
        /\
        lastOutcome = ([orig |-> "ok", rebuilt |-> "ok"])
        /\
        lastSig = ([orig |-> [idx |-> 63, auth |-> (0 :> <<0, 62>> @@ 1 :> <<1, 30>> @@ 2 :> <<2, 14>> @@ 3 :> <<3, 6>> @@ 4 :> <<4, 2>> @@ 5 :> <<5, 0>>)], rebuilt |-> [idx |-> -1, auth |-> <<>>]])
    )
----

_init ==
    /\ obj = _TETrace[1].obj
    /\ lastOutcome = _TETrace[1].lastOutcome
    /\ lastSig = _TETrace[1].lastSig
----

_next ==
    /\ \E i,j \in DOMAIN _TETrace:
        /\ \/ /\ j = i + 1
              /\ i = TLCGet("level")
        /\ obj  = _TETrace[i].obj
        /\ obj' = _TETrace[j].obj
        /\ lastOutcome  = _TETrace[i].lastOutcome
        /\ lastOutcome' = _TETrace[j].lastOutcome
        /\ lastSig  = _TETrace[i].lastSig
        /\ lastSig' = _TETrace[j].lastSig

\* Uncomment the ASSUME below to write the states of the error trace
\* to the given file in Json format. Note that you can pass any tuple
\* to `JsonSerialize`. For example, a sub-sequence of _TETrace.
    \* ASSUME
    \*     LET J == INSTANCE Json
    \*         IN J!JsonSerialize("MCWallet_TTrace_1790553823.json", _TETrace)

=============================================================================

 Note that you can extract this module `MCWallet_TEExpression`
  to a dedicated file to reuse `expression` (the module in the 
  dedicated `MCWallet_TEExpression.tla` file takes precedence 
  over the module `MCWallet_TEExpression` below).

---- MODULE MCWallet_TEExpression ----
EXTENDS Sequences, TLCExt, MCWallet, Toolbox, Naturals, TLC

expression == 
    [
        \* To hide variables of the `MCWallet` spec from the error trace,
        \* remove the variables below.  The trace will be written in the order
        \* of the fields of this record.
        obj |-> obj
        ,lastOutcome |-> lastOutcome
        ,lastSig |-> lastSig
        
        \* Put additional constant-, state-, and action-level expressions here:
        \* ,_stateNumber |-> _TEPosition
        \* ,_objUnchanged |-> obj = obj'
        
        \* Format the `obj` variable as Json value.
        \* ,_objJson |->
        \*     LET J == INSTANCE Json
        \*     IN J!ToJson(obj)
        
        \* Lastly, you may build expressions over arbitrary sets of states by
        \* leveraging the _TETrace operator.  For example, this is how to
        \* count the number of times a spec variable changed up to the current
        \* state in the trace.
        \* ,_objModCount |->
        \*     LET F[s \in DOMAIN _TETrace] ==
        \*         IF s = 1 THEN 0
        \*         ELSE IF _TETrace[s].obj # _TETrace[s-1].obj
        \*             THEN 1 + F[s-1] ELSE F[s-1]
        \*     IN F[_TEPosition - 1]
    ]

=============================================================================



Parsing and semantic processing can take forever if the trace below is long.
 In this case, it is advised to uncomment the module below to deserialize the
 trace from a generated binary file.

\*
\*---- MODULE MCWallet_TETrace ----
\*EXTENDS IOUtils, MCWallet, TLC
\*
\*trace == IODeserialize("MCWallet_TTrace_1790553823.bin", TRUE)
\*
\*=============================================================================
\*

---- MODULE MCWallet_TETrace ----
EXTENDS MCWallet, TLC

trace == 
    <<
    ([obj |-> [orig |-> [idx |-> -1], rebuilt |-> [idx |-> -1]],lastOutcome |-> [orig |-> "ok", rebuilt |-> "ok"],lastSig |-> [orig |-> [idx |-> -1, auth |-> <<>>], rebuilt |-> [idx |-> -1, auth |-> <<>>]]]),
    ([obj |-> [orig |-> [idx |-> 0, bds |-> [auth |-> (0 :> <<0, 1>> @@ 1 :> <<1, 1>> @@ 2 :> <<2, 1>> @@ 3 :> <<3, 1>> @@ 4 :> <<4, 1>> @@ 5 :> <<5, 1>>), stack |-> (0 :> <<-1, -1>> @@ 1 :> <<-1, -1>> @@ 2 :> <<-1, -1>> @@ 3 :> <<-1, -1>> @@ 4 :> <<-1, -1>> @@ 5 :> <<-1, -1>> @@ 6 :> <<-1, -1>>), stackOffset |-> 0, stackLevels |-> (0 :> 0 @@ 1 :> 0 @@ 2 :> 0 @@ 3 :> 0 @@ 4 :> 0 @@ 5 :> 0 @@ 6 :> 0), keep |-> (0 :> <<-1, -1>> @@ 1 :> <<-1, -1>> @@ 2 :> <<-1, -1>>), th |-> (0 :> [h |-> 0, node |-> <<0, 3>>, nextIdx |-> 0, stackUsage |-> 0, completed |-> 1] @@ 1 :> [h |-> 1, node |-> <<1, 3>>, nextIdx |-> 0, stackUsage |-> 0, completed |-> 1] @@ 2 :> [h |-> 2, node |-> <<2, 3>>, nextIdx |-> 0, stackUsage |-> 0, completed |-> 1] @@ 3 :> [h |-> 3, node |-> <<3, 3>>, nextIdx |-> 0, stackUsage |-> 0, completed |-> 1]), retain |-> (0 :> <<4, 3>>)], params |-> [hf |-> 2, sig |-> 0, height |-> 6, af |-> 0]], rebuilt |-> [idx |-> -1]],lastOutcome |-> [orig |-> "ok", rebuilt |-> "ok"],lastSig |-> [orig |-> [idx |-> -1, auth |-> <<>>], rebuilt |-> [idx |-> -1, auth |-> <<>>]]]),
    ([obj |-> [orig |-> [idx |-> 1, bds |-> [auth |-> (0 :> <<0, 0>> @@ 1 :> <<1, 1>> @@ 2 :> <<2, 1>> @@ 3 :> <<3, 1>> @@ 4 :> <<4, 1>> @@ 5 :> <<5, 1>>), stack |-> (0 :> <<-1, -1>> @@ 1 :> <<-1, -1>> @@ 2 :> <<-1, -1>> @@ 3 :> <<-1, -1>> @@ 4 :> <<-1, -1>> @@ 5 :> <<-1, -1>> @@ 6 :> <<-1, -1>>), stackOffset |-> 0, stackLevels |-> (0 :> 0 @@ 1 :> 0 @@ 2 :> 0 @@ 3 :> 0 @@ 4 :> 0 @@ 5 :> 0 @@ 6 :> 0), keep |-> (0 :> <<0, 1>> @@ 1 :> <<-1, -1>> @@ 2 :> <<-1, -1>>), th |-> (0 :> [h |-> 0, node |-> <<0, 3>>, nextIdx |-> 0, stackUsage |-> 0, completed |-> 1] @@ 1 :> [h |-> 1, node |-> <<1, 3>>, nextIdx |-> 0, stackUsage |-> 0, completed |-> 1] @@ 2 :> [h |-> 2, node |-> <<2, 3>>, nextIdx |-> 0, stackUsage |-> 0, completed |-> 1] @@ 3 :> [h |-> 3, node |-> <<3, 3>>, nextIdx |-> 0, stackUsage |-> 0, completed |-> 1]), retain |-> (0 :> <<4, 3>>)], params |-> [hf |-> 2, sig |-> 0, height |-> 6, af |-> 0]], rebuilt |-> [idx |-> -1]],lastOutcome |-> [orig |-> "ok", rebuilt |-> "ok"],lastSig |-> [orig |-> [idx |-> 0, auth |-> (0 :> <<0, 1>> @@ 1 :> <<1, 1>> @@ 2 :> <<2, 1>> @@ 3 :> <<3, 1>> @@ 4 :> <<4, 1>> @@ 5 :> <<5, 1>>)], rebuilt |-> [idx |-> -1, auth |-> <<>>]]]),
    ([obj |-> [orig |-> [idx |-> 63, bds |-> [auth |-> (0 :> <<0, 62>> @@ 1 :> <<1, 30>> @@ 2 :> <<2, 14>> @@ 3 :> <<3, 6>> @@ 4 :> <<4, 2>> @@ 5 :> <<5, 0>>), stack |-> (0 :> <<0, 62>> @@ 1 :> <<0, 62>> @@ 2 :> <<0, 62>> @@ 3 :> <<-1, -1>> @@ 4 :> <<-1, -1>> @@ 5 :> <<-1, -1>> @@ 6 :> <<-1, -1>>), stackOffset |-> 0, stackLevels |-> (0 :> 0 @@ 1 :> 0 @@ 2 :> 0 @@ 3 :> 0 @@ 4 :> 0 @@ 5 :> 0 @@ 6 :> 0), keep |-> (0 :> <<0, 61>> @@ 1 :> <<2, 13>> @@ 2 :> <<4, 1>>), th |-> (0 :> [h |-> 0, node |-> <<0, 63>>, nextIdx |-> 63, stackUsage |-> 0, completed |-> 1] @@ 1 :> [h |-> 1, node |-> <<1, 31>>, nextIdx |-> 63, stackUsage |-> 0, completed |-> 1] @@ 2 :> [h |-> 2, node |-> <<2, 15>>, nextIdx |-> 63, stackUsage |-> 0, completed |-> 1] @@ 3 :> [h |-> 3, node |-> <<3, 7>>, nextIdx |-> 63, stackUsage |-> 0, completed |-> 1]), retain |-> (0 :> <<4, 3>>)], params |-> [hf |-> 2, sig |-> 0, height |-> 6, af |-> 0]], rebuilt |-> [idx |-> -1]],lastOutcome |-> [orig |-> "ok", rebuilt |-> "ok"],lastSig |-> [orig |-> [idx |-> -1, auth |-> <<>>], rebuilt |-> [idx |-> -1, auth |-> <<>>]]]),
    ([obj |-> [orig |-> [idx |-> 64, bds |-> [auth |-> (0 :> <<0, 62>> @@ 1 :> <<1, 30>> @@ 2 :> <<2, 14>> @@ 3 :> <<3, 6>> @@ 4 :> <<4, 2>> @@ 5 :> <<5, 0>>), stack |-> (0 :> <<0, 62>> @@ 1 :> <<0, 62>> @@ 2 :> <<0, 62>> @@ 3 :> <<-1, -1>> @@ 4 :> <<-1, -1>> @@ 5 :> <<-1, -1>> @@ 6 :> <<-1, -1>>), stackOffset |-> 0, stackLevels |-> (0 :> 0 @@ 1 :> 0 @@ 2 :> 0 @@ 3 :> 0 @@ 4 :> 0 @@ 5 :> 0 @@ 6 :> 0), keep |-> (0 :> <<0, 61>> @@ 1 :> <<2, 13>> @@ 2 :> <<4, 1>>), th |-> (0 :> [h |-> 0, node |-> <<0, 63>>, nextIdx |-> 63, stackUsage |-> 0, completed |-> 1] @@ 1 :> [h |-> 1, node |-> <<1, 31>>, nextIdx |-> 63, stackUsage |-> 0, completed |-> 1] @@ 2 :> [h |-> 2, node |-> <<2, 15>>, nextIdx |-> 63, stackUsage |-> 0, completed |-> 1] @@ 3 :> [h |-> 3, node |-> <<3, 7>>, nextIdx |-> 63, stackUsage |-> 0, completed |-> 1]), retain |-> (0 :> <<4, 3>>)], params |-> [hf |-> 2, sig |-> 0, height |-> 6, af |-> 0]], rebuilt |-> [idx |-> -1]],lastOutcome |-> [orig |-> "ok", rebuilt |-> "ok"],lastSig |-> [orig |-> [idx |-> 63, auth |-> (0 :> <<0, 62>> @@ 1 :> <<1, 30>> @@ 2 :> <<2, 14>> @@ 3 :> <<3, 6>> @@ 4 :> <<4, 2>> @@ 5 :> <<5, 0>>)], rebuilt |-> [idx |-> -1, auth |-> <<>>]]]),
    ([obj |-> [orig |-> [idx |-> 64, bds |-> [auth |-> (0 :> <<0, 62>> @@ 1 :> <<1, 30>> @@ 2 :> <<2, 14>> @@ 3 :> <<3, 6>> @@ 4 :> <<4, 2>> @@ 5 :> <<5, 0>>), stack |-> (0 :> <<0, 62>> @@ 1 :> <<0, 62>> @@ 2 :> <<0, 62>> @@ 3 :> <<-1, -1>> @@ 4 :> <<-1, -1>> @@ 5 :> <<-1, -1>> @@ 6 :> <<-1, -1>>), stackOffset |-> 0, stackLevels |-> (0 :> 0 @@ 1 :> 0 @@ 2 :> 0 @@ 3 :> 0 @@ 4 :> 0 @@ 5 :> 0 @@ 6 :> 0), keep |-> (0 :> <<0, 61>> @@ 1 :> <<2, 13>> @@ 2 :> <<4, 1>>), th |-> (0 :> [h |-> 0, node |-> <<0, 63>>, nextIdx |-> 63, stackUsage |-> 0, completed |-> 1] @@ 1 :> [h |-> 1, node |-> <<1, 31>>, nextIdx |-> 63, stackUsage |-> 0, completed |-> 1] @@ 2 :> [h |-> 2, node |-> <<2, 15>>, nextIdx |-> 63, stackUsage |-> 0, completed |-> 1] @@ 3 :> [h |-> 3, node |-> <<3, 7>>, nextIdx |-> 63, stackUsage |-> 0, completed |-> 1]), retain |-> (0 :> <<4, 3>>)], params |-> [hf |-> 2, sig |-> 0, height |-> 6, af |-> 0]], rebuilt |-> [idx |-> 0, bds |-> [auth |-> (0 :> <<0, 1>> @@ 1 :> <<1, 1>> @@ 2 :> <<2, 1>> @@ 3 :> <<3, 1>> @@ 4 :> <<4, 1>> @@ 5 :> <<5, 1>>), stack |-> (0 :> <<-1, -1>> @@ 1 :> <<-1, -1>> @@ 2 :> <<-1, -1>> @@ 3 :> <<-1, -1>> @@ 4 :> <<-1, -1>> @@ 5 :> <<-1, -1>> @@ 6 :> <<-1, -1>>), stackOffset |-> 0, stackLevels |-> (0 :> 0 @@ 1 :> 0 @@ 2 :> 0 @@ 3 :> 0 @@ 4 :> 0 @@ 5 :> 0 @@ 6 :> 0), keep |-> (0 :> <<-1, -1>> @@ 1 :> <<-1, -1>> @@ 2 :> <<-1, -1>>), th |-> (0 :> [h |-> 0, node |-> <<0, 3>>, nextIdx |-> 0, stackUsage |-> 0, completed |-> 1] @@ 1 :> [h |-> 1, node |-> <<1, 3>>, nextIdx |-> 0, stackUsage |-> 0, completed |-> 1] @@ 2 :> [h |-> 2, node |-> <<2, 3>>, nextIdx |-> 0, stackUsage |-> 0, completed |-> 1] @@ 3 :> [h |-> 3, node |-> <<3, 3>>, nextIdx |-> 0, stackUsage |-> 0, completed |-> 1]), retain |-> (0 :> <<4, 3>>)], params |-> [hf |-> 2, sig |-> 0, height |-> 6, af |-> 0]]],lastOutcome |-> [orig |-> "ok", rebuilt |-> "ok"],lastSig |-> [orig |-> [idx |-> 63, auth |-> (0 :> <<0, 62>> @@ 1 :> <<1, 30>> @@ 2 :> <<2, 14>> @@ 3 :> <<3, 6>> @@ 4 :> <<4, 2>> @@ 5 :> <<5, 0>>)], rebuilt |-> [idx |-> -1, auth |-> <<>>]]])
    >>
----


=============================================================================

---- CONFIG MCWallet_TTrace_1790553823 ----
CONSTANTS
    H = 6
    K = 2
    HF = 2
    Obj = { "orig" , "rebuilt" }
    JumpArgs <- JumpClasses

INVARIANT
    _inv

CHECK_DEADLOCK
    \* CHECK_DEADLOCK off because of PROPERTY or INVARIANT above.
    FALSE

INIT
    _init

NEXT
    _next

CONSTANT
    _TETrace <- _trace

ALIAS
    _expression
=============================================================================
\* Generated on Mon Sep 28 00:03:50 UTC 2026