------------------------------ MODULE SimWallet ------------------------------
(* Behaviour generator: Wallet with a history variable that records the     *)
(* operations taken.  Run with TLC -simulate; every behaviour of length     *)
(* Depth is printed as one JSON line ("BEHAVIOUR" marker) and then executed *)
(* on real objects by cmd/xmssdrive -plan (spec -> code direction).         *)
EXTENDS MCWallet, Json

CONSTANT Depth
VARIABLE hist

SimInit == Init /\ hist = <<>>

Op(name, o, arg) == [op |-> name, o |-> o, arg |-> arg]

SimNext ==
  /\ Len(hist) < Depth
  /\ \E o \in Obj :
          \/ Sign(o) /\ hist' = Append(hist, Op("Sign", o, 0))
          \/ Crash(o) /\ obj[o].idx % 3 = 1 /\ hist' = Append(hist, Op("Crash", o, 0))
          \/ \E kind \in Kinds : Rebuild(o, kind) /\ hist' = Append(hist, Op("Rebuild:" \o kind, o, 0))
          \/ \E j \in JumpArgs(obj[o].idx) : SetIndex(o, j) /\ hist' = Append(hist, Op("SetIndex", o, j))

\* bias towards forward jumps and signing: a jump set that contains few refusals
JumpSim(i) == IF i < 0 THEN {} ELSE {i + 1, i + 3, i + 2^(H-2) + 1, i - 1, N} \cap (0..N)

Emit == (Len(hist) = Depth) => PrintT(<<"BEHAVIOUR", ToJson(hist)>>)
SimView == <<obj, hist>>
=============================================================================
