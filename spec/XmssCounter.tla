---------------------------- MODULE XmssCounter ----------------------------
(***************************************************************************)
(* The one-time-index counter of an XMSS key (C02), abstracted from        *)
(* XmssKeyOps (SetIndexResult / SignResult with the BDS state dropped),    *)
(* for Apalache: the invariants hold for EVERY tree size N = 2..2^30 and   *)
(* every uint32 argument of SetIndex, not only for the small N that TLC    *)
(* enumerates (XmssKey / MCXmssKey).  Inductive: Init => IndInv and        *)
(* IndInv /\ Next => IndInv'.                                              *)
(***************************************************************************)
EXTENDS Integers

CONSTANT
  \* @type: Int;
  N

VARIABLES
  \* @type: Int;
  idx,          \* next unused index (sk[0:4])
  \* @type: Int;
  maxEmitted,   \* largest index ever embedded in a returned signature, -1 = none
  \* @type: Int;
  last,         \* index embedded in the signature returned by the last step, -1 = the step returned none
  \* @type: Int;
  prevMax       \* maxEmitted before the last step

ConstInit == N \in 2..1073741824

Init == idx = 0 /\ maxEmitted = -1 /\ last = -1 /\ prevMax = -1

\* SetIndexResult
SetIndex(j) ==
  /\ idx' = IF j >= N \/ j < idx THEN idx ELSE j
  /\ last' = -1 /\ prevMax' = maxEmitted /\ UNCHANGED maxEmitted

\* SignResult: Sign begins with SetIndex(GetIndex()), so an exhausted key (idx = N) refuses
Sign ==
  IF idx >= N
  THEN /\ UNCHANGED <<idx, maxEmitted>> /\ last' = -1 /\ prevMax' = maxEmitted
  ELSE /\ idx' = idx + 1 /\ last' = idx /\ prevMax' = maxEmitted
       /\ maxEmitted' = IF idx > maxEmitted THEN idx ELSE maxEmitted

Next == Sign \/ \E j \in 0..4294967295 : SetIndex(j)

\* C02 as state predicates over the last step
NeverReused   == last # -1 => last > prevMax
NeverExceeded == last # -1 => last < N
Bounded       == idx >= 0 /\ idx <= N

IndInv == /\ Bounded /\ NeverReused /\ NeverExceeded
          /\ maxEmitted >= -1 /\ maxEmitted < idx /\ prevMax <= maxEmitted /\ prevMax >= -1 /\ last >= -1
IndInit == /\ idx \in 0..1073741824 /\ maxEmitted \in -1..1073741824 /\ last \in -1..1073741824 /\ prevMax \in -1..1073741824
           /\ IndInv

\* control (must be refuted): SetIndex WITHOUT the rewind refusal re-uses an index
BadSetIndex(j) == /\ idx' = IF j >= N THEN idx ELSE j
                  /\ last' = -1 /\ prevMax' = maxEmitted /\ UNCHANGED maxEmitted
BadNext == Sign \/ \E j \in 0..4294967295 : BadSetIndex(j)
=============================================================================
