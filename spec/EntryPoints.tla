----------------------------- MODULE EntryPoints -----------------------------
(***************************************************************************)
(* The entry points of go-qrllib that take untrusted bytes, and for each   *)
(* abstract input the outcome the library is specified to produce:         *)
(*   "value"            the call returns                                   *)
(*   "refused:" \o msg  the call panics with that library message          *)
(* Runtime faults, panics with non-string values, time-outs and modified   *)
(* input buffers are in no allowed set.                                    *)
(*                                                                         *)
(*   xverify      xmss.Verify / VerifyWithCustomWOTSParamW (w = 4,16,256)  *)
(*   xaddr        xmss.GetXMSSAddressFromPK                                *)
(*   xladdr       xmss.GetLegacyXMSSAddressFromPK                          *)
(*   xvalid       xmss.IsValidXMSSAddress                                  *)
(*   xlvalid      xmss.IsValidLegacyXMSSAddress                            *)
(*   desc         xmss.NewQRLDescriptorFromBytes                           *)
(*   dverify      dilithium.Verify                                         *)
(*   dopen        dilithium.Open                                           *)
(*   dvalid       dilithium.IsValidDilithiumAddress                        *)
(*   daddr        dilithium.GetDilithiumAddressFromPK                      *)
(*   mnseed       misc.MnemonicToSeedBin                                   *)
(*   mnext        misc.MnemonicToExtendedSeedBin                           *)
(***************************************************************************)
EXTENDS XmssVerify, Mnemonic

MsgAddrFormat == "Address format type not supported"
MsgDescSize   == "Descriptor size should be 3 bytes"
MsgWordCount(n) == "word count = " \o ToString(n) \o " must be even"
MsgWord       == "invalid word in mnemonic"
MsgSeedSize   == "unexpected MnemonicToSeedBin output size"
MsgExtSize    == "unexpected MnemonicToExtendedSeedBin output size"

DilithiumSigBytes == 4595

R(m) == "refused:" \o m

\* xmss.Verify: the cascade decides; whatever reaches the cryptographic check returns
XVerifyOutcome(sigLen, w, b0, b1) ==
  LET c == Cascade(sigLen, w, b0, b1)
  IN IF c.kind = "refused" THEN R(c.msg) ELSE "value"

XAddrOutcome(b1) == IF (b1 \div 16) % 16 # SHA256_2X THEN R(MsgAddrFormat) ELSE "value"

DescOutcome(len) == IF len # 3 THEN R(MsgDescSize) ELSE "value"

\* mnemonic decoders: phrase as bytes, WordIndex : word (byte sequence) -> index
MnOutcome(chars, WordIndex, size) ==
  LET toks == Tokens(chars)
  IN IF Len(toks) % 2 # 0 THEN R(MsgWordCount(Len(toks)))
     ELSE IF \E i \in 1..Len(toks) : toks[i] \notin DOMAIN WordIndex THEN R(MsgWord)
     ELSE IF (Len(toks) * 3) \div 2 # size THEN R(IF size = 48 THEN MsgSeedSize ELSE MsgExtSize)
     ELSE "value"

\* Dilithium verification and opening never refuse; Open returns nothing for short input
DOpenReturnsNothing(len) == len < DilithiumSigBytes

---------------------------------------------------------------------------
(* abstract input classes handed to the driver for concretisation (spec -> code) *)

XVerifyLens(w) == LET b == SigBase(w) IN
  {0, 1, 3, 4, 5, 35, 36, 37, b - 32, b - 1, b + 1, b + 31, b + 33, b + 32 * 30 - 1, b + 32 * 30 + 1, b + 32 * 31, 2 * (b + 32 * 30)}
  \cup {b + 32 * k : k \in 0..30}

XVerifyClasses ==
  {[entry |-> "xverify", w |-> w, siglen |-> n, b0 |-> b0] :
      w \in {4, 16, 256}, n \in UNION {XVerifyLens(ww) : ww \in {4, 16, 256}}, b0 \in {0, 1, 2, 3, 9, 15, 16, 18, 240, 255}}

DOpenLens == {0, 1, 31, 32, 4594, 4595, 4596, 4595 + 136, 4595 + 4096}
=============================================================================
