------------------------------ MODULE MCWallet ------------------------------
EXTENDS Wallet
U31MAX == 2147483647
JumpAll(i) == IF i < 0 THEN {} ELSE (0..(N + 1)) \cup {U31MAX}
JumpClasses(i) ==
  IF i < 0 THEN {} ELSE
  LET dists == {0, 1, 2, 3} \cup UNION {{2^e - 1, 2^e, 2^e + 1} : e \in 2..H}
  IN (({i + d : d \in dists} \cap (0..(N + 1))) \cup {0, i - 1, N - 1, N, U31MAX}) \ {-1}
=============================================================================
