----------------------------- MODULE Descriptor -----------------------------
(***************************************************************************)
(* The 3-byte QRL descriptor (xmss/descriptor.go), concrete on bytes.      *)
(*   byte 0 = signature type (high nibble) | hash function (low nibble)    *)
(*   byte 1 = address format (high nibble) | height / 2    (low nibble)    *)
(*   byte 2 = 0 when written, ignored when read                            *)
(* GetBytes truncates with uint8(..) << 4 and & 0x0F; transcribed with     *)
(* arithmetic modulo 256 / 16.                                             *)
(***************************************************************************)
EXTENDS Integers, Sequences

Byte == 0..255
Nibble == 0..15

\* QRLDescriptor.GetBytes
Encode(hf, sig, height, af) ==
  << ((sig * 16) % 256) + (hf % 16),
     ((af * 16) % 256) + ((height \div 2) % 16),
     0 >>

\* NewQRLDescriptorFromBytes (and the identical LegacyQRLDescriptorFromBytes)
Decode(b) ==
  [ hf     |-> b[1] % 16,
    sig    |-> (b[1] \div 16) % 16,
    height |-> (b[2] % 16) * 2,
    af     |-> (b[2] \div 16) % 16 ]

Fields(hf, sig, height, af) == [hf |-> hf, sig |-> sig, height |-> height, af |-> af]

XMSSSig == 0
DilithiumSig == 1
SHA256_2X == 0
SupportedHash == {0, 1, 2}          \* SHA2_256, SHAKE_128, SHAKE_256
SupportedHeights == {h \in 4..30 : h % 2 = 0}

\* constructors refuse heights above MaxHeight = 30 and (initializeTree) heights
\* with K >= h or (h-K) odd: exactly the even heights 4..30 build a key
KeyHeightOK(h) == h <= 30 /\ 2 < h /\ (h - 2) % 2 = 0

(* address validity (xmss.go IsValidXMSSAddress, dilithium.go IsValidDilithiumAddress),
   decided on the first bytes of the 20-byte address *)
IsValidXMSSAddr(b1, b2) == LET d == Decode(<<b1, b2, 0>>) IN d.sig = XMSSSig /\ d.af = SHA256_2X
DilithiumDescriptorByte == (DilithiumSig * 16) % 256
IsValidDilithiumAddr(b1) == b1 = DilithiumDescriptorByte
=============================================================================
