------------------------------ MODULE TraceEntry ------------------------------
(***************************************************************************)
(* Trace validation for the entry points that take untrusted bytes (C14).  *)
(* Each event is one or several calls of one entry point with the abstract *)
(* input (lengths, descriptor bytes, w, phrase bytes) and, per call, the   *)
(* observed outcome: "value", "refused:<panic text>", "runtime:<error>",   *)
(* "panic-other:..", "panic-error:..", "timeout".  EntryPoints.tla gives   *)
(* the outcome the library is specified to produce for that input.         *)
(*   violation: an outcome that is neither a value nor a string refusal,   *)
(*              any refusal by Dilithium Verify/Open, a modified input     *)
(*              buffer, a non-nil Open result for a short input;           *)
(*   drift:     a value where a refusal is specified or the reverse, or    *)
(*              another refusal text.                                      *)
(***************************************************************************)
EXTENDS EntryPoints, IOUtils, Json

Trace == ndJsonDeserialize(IOEnv.VERIF_TRACE)
ResultPath == IOEnv.VERIF_RESULT
WordList == JsonDeserialize(IOEnv.VERIF_WORDLIST)
WordSet == {WordList[i] : i \in 1..Len(WordList)}
WordIndex == [w \in WordSet |-> (CHOOSE i \in 1..Len(WordList) : WordList[i] = w) - 1]

When(c, s) == IF c THEN <<s>> ELSE <<>>

\* e.kinds[i] is the class of the i-th outcome as observed by the harness from the type of
\* the recovered panic value: value | refused (string) | runtime | panic-error | panic-other | timeout
Specified(e, i) ==
  CASE e.ev = "xverify" -> XVerifyOutcome(e.siglen, e.w, e.b0, e.b1s[i])
    [] e.ev \in {"xaddr", "xladdr"} -> XAddrOutcome(e.b1s[i])
    [] e.ev = "desc" -> DescOutcome(e.lens[i])
    [] e.ev = "mn" -> MnOutcome(e.phrase, WordIndex, e.size)
    [] OTHER -> "value"

Outs(e) == IF "outs" \in DOMAIN e THEN e.outs ELSE <<e.out>>

Judge(e) ==
  LET outs == Outs(e)
  IN When(\E i \in 1..Len(outs) : e.kinds[i] \notin {"value", "refused"},
          "runtime fault, foreign panic or time-out on untrusted input")
     \o When(\E i \in 1..Len(outs) : e.kinds[i] = "refused" /\ e.ev \in {"dverify", "dopen", "dvalid", "daddr", "xvalid", "xlvalid"},
             "an entry point that never refuses raised a refusal")
     \o When(~e.intact, "the call modified the caller's buffers")
     \o When(e.ev = "dopen" /\ DOpenReturnsNothing(e.siglen) /\ ~e.nil[1], "Open returned a message for an input shorter than a signature")

DriftOf(e) ==
  LET outs == Outs(e)
  IN When(\E i \in 1..Len(outs) : e.kinds[i] \in {"value", "refused"} /\ outs[i] # Specified(e, i),
          "outcome differs from the one EntryPoints.tla specifies (value vs refusal, or refusal text)")

VARIABLES l, viols, nviol, drift, counts, done
K == INSTANCE TraceKit WITH Judge <- Judge, Drift <- DriftOf
Spec == K!Spec
View == K!View
=============================================================================
