------------------------------ MODULE DilithiumEq ------------------------------
(***************************************************************************)
(* CRYSTALS-Dilithium round 3.1, level-5 parameters (K = 8, L = 7, eta = 2, *)
(* tau = 60, gamma1 = 2^19, gamma2 = (q-1)/32, omega = 75), as go-qrllib    *)
(* instantiates it (dilithium/sign.go, poly.go, polyvec.go, packing.go),    *)
(* written as equations over the hash oracle with PLAIN arithmetic modulo   *)
(* q: no NTT, no Montgomery form.  Polynomials are 1-based sequences of 256 *)
(* coefficients; byte strings 1-based sequences of 0..255.                  *)
(***************************************************************************)
EXTENDS HashOracle, DilithiumMath, DilithiumPack, FiniteSets

\* TLC evaluates a function constructor [i \in S |-> e] LAZILY: e is re-evaluated at every application.
\* Wherever a polynomial is the result of real work and is indexed more than once it is therefore
\* materialised as a sequence (Append evaluates eagerly); without this a butterfly network costs n^2.
Idx(n) == [i \in 1..n |-> i]
Force(f, n) == FoldLeft(LAMBDA acc, i : Append(acc, f[i]), <<>>, Idx(n))

SHAKE128 == 100
SHAKE256 == 101
Le16(x) == <<x % 256, x \div 256>>

---------------------------------------------------------------------------
(* samplers as functions of a byte stream *)

\* rejUniform: 3-byte groups, 23 bits, accepted when < q; the first 256 accepted values
RejUniform(stream) ==
  FoldLeft(LAMBDA acc, g :
             IF Len(acc) = NN THEN acc
             ELSE LET t == stream[3 * g + 1] + 256 * stream[3 * g + 2] + 65536 * (stream[3 * g + 3] % 128)
                  IN IF t < Q THEN Append(acc, t) ELSE acc,
           <<>>, [g \in 1..(Len(stream) \div 3) |-> g - 1])

\* rejEta (eta = 2): nibbles, low first; a nibble < 15 gives 2 - (nibble mod 5)
RejEta(stream) ==
  FoldLeft(LAMBDA acc, n :
             IF Len(acc) = NN THEN acc
             ELSE LET b == stream[(n \div 2) + 1]
                      t == IF n % 2 = 0 THEN b % 16 ELSE b \div 16
                  IN IF t < 15 THEN Append(acc, 2 - (t % 5)) ELSE acc,
           <<>>, [n \in 1..(2 * Len(stream)) |-> n - 1])

\* polyUniformGamma1: the first 640 stream bytes as 256 twenty-bit values v, coefficient 2^19 - v
Gamma1Poly(stream) == Force(UnpackPoly("z", NN, SubSeq(stream, 1, 640)), NN)

\* polyChallenge: 60 coefficients +-1; signs from the first 8 stream bytes (bit j of the 64-bit
\* little-endian word = bit j mod 8 of byte j div 8), positions by rejection b <= i for i = 196..255
Challenge(stream) ==
  LET SignBit(j) == (stream[(j \div 8) + 1] \div 2^(j % 8)) % 2
      st == FoldLeft(LAMBDA acc, p :           \* p runs over stream positions 8, 9, ..
                       IF acc.i > NN - 1 THEN acc
                       ELSE LET b == stream[p + 1]
                            IN IF b > acc.i THEN acc
                               ELSE [i |-> acc.i + 1, k |-> acc.k + 1,
                                     c |-> [acc.c EXCEPT ![acc.i + 1] = acc.c[b + 1], ![b + 1] = 1 - 2 * SignBit(acc.k)]],
                     [i |-> NN - TAU, k |-> 0, c |-> [x \in 1..NN |-> 0]],
                     [p \in 1..(Len(stream) - 8) |-> p + 7])
  IN st.c

UniformStream(rho, i, j) == Hash(SHAKE128, rho \o <<j, i>>, 1008)        \* nonce (i << 8) + j, low byte first
EtaStream(rhoPrime, nonce) == Hash(SHAKE256, rhoPrime \o Le16(nonce), 272)
Gamma1Stream(rhoPP, nonce) == Hash(SHAKE256, rhoPP \o Le16(nonce), 680)
ChallengeStream(cTilde) == Hash(SHAKE256, cTilde, 272)

MatrixEntry(rho, i, j) == RejUniform(UniformStream(rho, i, j))            \* i in 0..K-1, j in 0..L-1

---------------------------------------------------------------------------
(* ring arithmetic, plain.  As in the Dilithium specification the matrix A is sampled  *)
(* directly in the NTT domain (ExpandA yields A-hat), so products with A are          *)
(*   A s = NTT^-1( A-hat o NTT(s) )                                                   *)
(* with NTT defined mathematically: evaluation at the 256 roots of X^256 + 1 in the   *)
(* reference order, slot 2i = r^brv8(128+i), slot 2i+1 = -r^brv8(128+i), r = 1753.    *)

Brv8(k) == LET b(i) == (k \div 2^i) % 2 IN b(0) * 128 + b(1) * 64 + b(2) * 32 + b(3) * 16 + b(4) * 8 + b(5) * 4 + b(6) * 2 + b(7)
RECURSIVE PowMod(_, _)
PowMod(x, n) == IF n = 0 THEN 1 ELSE IF n % 2 = 0 THEN LET h == PowMod(x, n \div 2) IN MulMod(h, h) ELSE MulMod(x, PowMod(x, n - 1))
ROOT == 1753
EvalPoints == [m \in 1..NN |-> LET base == PowMod(ROOT, Brv8(128 + ((m - 1) \div 2))) IN IF (m - 1) % 2 = 0 THEN base ELSE Q - base]
InvPoints == [m \in 1..NN |-> PowMod(EvalPoints[m], Q - 2)]
Inv256 == PowMod(256, Q - 2)

\* a(x) mod q by Horner's rule, coefficients of any sign
EvalAt(a, x) == FoldLeft(LAMBDA acc, n : (MulMod(acc, x) + (a[NN - n] % Q)) % Q, 0, [n \in 1..NN |-> n - 1])
NTTDef(a) == [m \in 1..NN |-> EvalAt(a, EvalPoints[m])]

\* the same linear map computed by the Cooley-Tukey network of the reference implementation,
\* in plain arithmetic modulo q (no Montgomery form): layer `len` multiplies the upper half of
\* every block of 2*len coefficients by zeta_k = r^brv8(k), k = 128/len + block number.
\* MCDilithiumEq checks NTT(X^n) = NTTDef(X^n) for all 256 unit vectors; both maps are linear.
Zeta(k) == PowMod(ROOT, Brv8(k))
ZetaTable == [k \in 1..255 |-> Zeta(k)]
Layer(a, len) ==
  Force([idx \in 1..NN |->
     LET i == idx - 1
         blk == i \div (2 * len)
         pos == i % (2 * len)
         z == ZetaTable[(128 \div len) + blk]
     IN IF pos < len THEN (a[idx] + MulMod(z, a[idx + len])) % Q
        ELSE (a[idx - len] + Q - MulMod(z, a[idx])) % Q], NN)
NTT(a) == FoldLeft(Layer, Force([m \in 1..NN |-> a[m] % Q], NN), <<128, 64, 32, 16, 8, 4, 2, 1>>)
\* the inverse network (Gentleman-Sande, as the reference's invntt without its Montgomery factor):
\* layer `len` = 1, 2, .., 128; block b of 2*len slots uses -zeta_k with k = 2*(128/len) - 1 - b
InvLayer(a, len) ==
  Force([idx \in 1..NN |->
     LET i == idx - 1
         blk == i \div (2 * len)
         pos == i % (2 * len)
         z == (Q - ZetaTable[2 * (128 \div len) - 1 - blk]) % Q
     IN IF pos < len THEN (a[idx] + a[idx + len]) % Q
        ELSE MulMod(z, (a[idx - len] + Q - a[idx]) % Q)], NN)
InvNTT(ahat) ==
  LET r == FoldLeft(InvLayer, ahat, <<1, 2, 4, 8, 16, 32, 64, 128>>)
  IN Force([m \in 1..NN |-> MulMod(Inv256, r[m])], NN)

\* coefficient k (0-based) of NTT^-1(ahat)
InvNTTAt(ahat, k) ==
  MulMod(Inv256, FoldLeft(LAMBDA acc, m : (acc + MulMod(ahat[m], PowMod(InvPoints[m], k))) % Q, 0, [m \in 1..NN |-> m]))
PointwiseAcc(acc, a, b) == Force([m \in 1..NN |-> (acc[m] + MulMod(a[m], b[m])) % Q], NN)
ZeroPoly == Force([m \in 1..NN |-> 0], NN)

\* c * s for the sparse challenge c (entries -1, 0, 1) and small s: all coefficients, as integers
SparseMul(c, s) ==
  LET nz == SelectSeq([i \in 1..NN |-> i - 1], LAMBDA i : c[i + 1] # 0)
  IN Force([k \in 1..NN |->
        FoldLeft(LAMBDA acc, i : LET j == (k - 1) - i
                                 IN acc + (IF j >= 0 THEN c[i + 1] * s[j + 1] ELSE -(c[i + 1] * s[j + NN + 1])),
                 0, nz)], NN)

---------------------------------------------------------------------------
(* key generation: cryptoSignKeypair(SHAKE256(seed48)[0:32]) *)

KeySeeds(seed48) ==
  LET e == Hash(SHAKE256, Hash(SHAKE256, seed48, 32), 128)
  IN [rho |-> SubSeq(e, 1, 32), rhoPrime |-> SubSeq(e, 33, 96), key |-> SubSeq(e, 97, 128)]

S1(rhoPrime) == Force([i \in 1..LL |-> RejEta(EtaStream(rhoPrime, i - 1))], LL)
S2(rhoPrime) == Force([i \in 1..KK |-> RejEta(EtaStream(rhoPrime, LL + i - 1))], KK)

\* row i of A-hat times a vector given in the NTT domain: sum_j A-hat[i][j] o vhat[j]
RowTimes(rho, vhat, i) ==
  FoldLeft(LAMBDA acc, j : PointwiseAcc(acc, MatrixEntry(rho, i, j), vhat[j + 1]), ZeroPoly, [j \in 1..LL |-> j - 1])

\* row i of t = A s1 + s2, all 256 coefficients in [0, q)
TRow(rho, s1hat, s2, i) == LET p == InvNTT(RowTimes(rho, s1hat, i)) IN [k \in 1..NN |-> (p[k] + s2[i + 1][k]) % Q]

\* t[i][k] = (NTT^-1(sum_j A-hat[i][j] o NTT(s1[j])))[k] + s2[i][k]  mod q   (i, k 0-based)
TAt(rho, s1hat, s2, i, k) == (InvNTTAt(RowTimes(rho, s1hat, i), k) + s2[i + 1][k + 1]) % Q

\* field layout of the keys
PkRho(pk) == SubSeq(pk, 1, 32)
PkT1(pk, i) == Force(UnpackPoly("t1", NN, SubSeq(pk, 33 + 320 * i, 32 + 320 * (i + 1))), NN)          \* i = 0..7
SkRho(sk) == SubSeq(sk, 1, 32)
SkKey(sk) == SubSeq(sk, 33, 64)
SkTr(sk)  == SubSeq(sk, 65, 96)
SkS1(sk, i) == Force(UnpackPoly("eta", NN, SubSeq(sk, 97 + 96 * i, 96 + 96 * (i + 1))), NN)           \* i = 0..6
SkS2(sk, i) == Force(UnpackPoly("eta", NN, SubSeq(sk, 769 + 96 * i, 768 + 96 * (i + 1))), NN)         \* i = 0..7
SkT0(sk, i) == Force(UnpackPoly("t0", NN, SubSeq(sk, 1537 + 416 * i, 1536 + 416 * (i + 1))), NN)      \* i = 0..7

---------------------------------------------------------------------------
(* signing *)

Mu(tr, msg) == Hash(SHAKE256, tr \o msg, 64)
RhoPP(key, mu) == Hash(SHAKE256, key \o mu, 64)
Y(rhoPP, kappa, i) == Gamma1Poly(Gamma1Stream(rhoPP, LL * kappa + i))      \* iteration kappa (0-based), polynomial i

\* signature layout
SigC(sig) == SubSeq(sig, 1, 32)
SigZ(sig, i) == Force(UnpackPoly("z", NN, SubSeq(sig, 33 + 640 * i, 32 + 640 * (i + 1))), NN)         \* i = 0..6
SigHint(sig) == SubSeq(sig, 33 + 640 * LL, 32 + 640 * LL + OMEGA + KK)

PolyAdd(a, b) == Force([k \in 1..NN |-> a[k] + b[k]], NN)
MaxAbs(p) == FoldLeft(LAMBDA acc, x : IF Abs(x) > acc THEN Abs(x) ELSE acc, 0, p)

---------------------------------------------------------------------------
(* the complete algorithms, byte for byte *)

Concat(seqs) == FoldLeft(LAMBDA acc, x : acc \o x, <<>>, seqs)
AHat(rho) == Force([i \in 1..KK |-> Force([j \in 1..LL |-> MatrixEntry(rho, i - 1, j - 1)], LL)], KK)
RowTimesA(ahatRow, vhat) == FoldLeft(LAMBDA acc, j : PointwiseAcc(acc, ahatRow[j], vhat[j]), ZeroPoly, [j \in 1..LL |-> j])

\* KeyGen(seed48): (pk, sk)
KeyGen(seed48) ==
  LET ks == KeySeeds(seed48)
      A == AHat(ks.rho)
      s1 == S1(ks.rhoPrime)
      s2 == S2(ks.rhoPrime)
      s1hat == Force([j \in 1..LL |-> NTT(s1[j])], LL)
      t == Force([i \in 1..KK |-> LET p == InvNTT(RowTimesA(A[i], s1hat)) IN Force([k \in 1..NN |-> (p[k] + s2[i][k]) % Q], NN)], KK)
      t1 == Force([i \in 1..KK |-> Force([k \in 1..NN |-> Power2RoundDef(t[i][k]).hi], NN)], KK)
      t0 == Force([i \in 1..KK |-> Force([k \in 1..NN |-> Power2RoundDef(t[i][k]).lo], NN)], KK)
      pk == ks.rho \o Concat([i \in 1..KK |-> PackPoly("t1", t1[i])])
      tr == Hash(SHAKE256, pk, 32)
      sk == ks.rho \o ks.key \o tr \o Concat([i \in 1..LL |-> PackPoly("eta", s1[i])])
               \o Concat([i \in 1..KK |-> PackPoly("eta", s2[i])]) \o Concat([i \in 1..KK |-> PackPoly("t0", t0[i])])
  IN [pk |-> pk, sk |-> sk]

\* one iteration (kappa = 0, 1, ..) of the signing loop for secret key material and mu / rho''
SignIteration(A, s1, s2, t0, mu, rhoPP, kappa) ==
  LET y == Force([i \in 1..LL |-> Y(rhoPP, kappa, i - 1)], LL)
      yhat == Force([i \in 1..LL |-> NTT(y[i])], LL)
      w == Force([i \in 1..KK |-> InvNTT(RowTimesA(A[i], yhat))], KK)
      w1 == Force([i \in 1..KK |-> Force([k \in 1..NN |-> DecomposeDef(w[i][k]).hi], NN)], KK)
      w0 == Force([i \in 1..KK |-> Force([k \in 1..NN |-> DecomposeDef(w[i][k]).lo], NN)], KK)
      ct == Hash(SHAKE256, mu \o Concat([i \in 1..KK |-> PackPoly("w1", w1[i])]), 32)
      c == Challenge(ChallengeStream(ct))
      z == Force([i \in 1..LL |-> PolyAdd(y[i], SparseMul(c, s1[i]))], LL)
      maxz == FoldLeft(LAMBDA acc, i : IF MaxAbs(z[i]) > acc THEN MaxAbs(z[i]) ELSE acc, 0, [i \in 1..LL |-> i])
      r0 == Force([i \in 1..KK |-> LET cs2 == SparseMul(c, s2[i]) IN Force([k \in 1..NN |-> w0[i][k] - cs2[k]], NN)], KK)
      maxr0 == FoldLeft(LAMBDA acc, i : IF MaxAbs(r0[i]) > acc THEN MaxAbs(r0[i]) ELSE acc, 0, [i \in 1..KK |-> i])
      ct0 == Force([i \in 1..KK |-> SparseMul(c, t0[i])], KK)
      maxct0 == FoldLeft(LAMBDA acc, i : IF MaxAbs(ct0[i]) > acc THEN MaxAbs(ct0[i]) ELSE acc, 0, [i \in 1..KK |-> i])
      hint == Force([i \in 1..KK |-> {k - 1 : k \in {x \in 1..NN : MakeHintDef(r0[i][x] + ct0[i][x], w1[i][x]) = 1}}], KK)
      nh == FoldLeft(LAMBDA acc, i : acc + Cardinality(hint[i]), 0, [i \in 1..KK |-> i])
      exit == IF maxz >= GAMMA1 - BETA THEN 1
              ELSE IF maxr0 >= GAMMA2 - BETA THEN 2
              ELSE IF maxct0 >= GAMMA2 THEN 3
              ELSE IF nh > OMEGA THEN 4 ELSE 0
  IN [exit |-> exit, ct |-> ct, z |-> z, hint |-> hint, maxz |-> maxz, maxr0 |-> maxr0, maxct0 |-> maxct0, nh |-> nh]

=============================================================================
