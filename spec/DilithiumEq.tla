------------------------------ MODULE DilithiumEq ------------------------------
(***************************************************************************)
(* CRYSTALS-Dilithium round 3.1, level-5 parameters (K = 8, L = 7, eta = 2, *)
(* tau = 60, gamma1 = 2^19, gamma2 = (q-1)/32, omega = 75), as go-qrllib    *)
(* instantiates it (dilithium/sign.go, poly.go, polyvec.go, packing.go),    *)
(* written as equations over the hash oracle with PLAIN arithmetic modulo   *)
(* q: no NTT, no Montgomery form.  Polynomials are 1-based sequences of 256 *)
(* coefficients; byte strings 1-based sequences of 0..255.                  *)
(***************************************************************************)
EXTENDS HashOracle, DilithiumMath, DilithiumPack

SHAKE128 == 100
SHAKE256 == 101
Le16(x) == <<x % 256, x \div 256>>

---------------------------------------------------------------------------
(* samplers as functions of a byte stream *)

\* rejUniform: 3-byte groups, 23 bits, accepted when < q; the first 256 accepted values
RejUniform(stream) ==
  FoldLeft(LAMBDA acc, g :
             IF Len(acc) = NN THEN acc
             ELSE LET t == stream[3 * g + 1] + 256 * stream[3 * g + 2] + 65536 * (stream[3 * g + 3] % 128)
                  IN IF t < Q THEN Append(acc, t) ELSE acc,
           <<>>, [g \in 1..(Len(stream) \div 3) |-> g - 1])

\* rejEta (eta = 2): nibbles, low first; a nibble < 15 gives 2 - (nibble mod 5)
RejEta(stream) ==
  FoldLeft(LAMBDA acc, n :
             IF Len(acc) = NN THEN acc
             ELSE LET b == stream[(n \div 2) + 1]
                      t == IF n % 2 = 0 THEN b % 16 ELSE b \div 16
                  IN IF t < 15 THEN Append(acc, 2 - (t % 5)) ELSE acc,
           <<>>, [n \in 1..(2 * Len(stream)) |-> n - 1])

\* polyUniformGamma1: the first 640 stream bytes as 256 twenty-bit values v, coefficient 2^19 - v
Gamma1Poly(stream) == UnpackPoly("z", NN, SubSeq(stream, 1, 640))

\* polyChallenge: 60 coefficients +-1; signs from the first 8 stream bytes (bit j of the 64-bit
\* little-endian word = bit j mod 8 of byte j div 8), positions by rejection b <= i for i = 196..255
Challenge(stream) ==
  LET SignBit(j) == (stream[(j \div 8) + 1] \div 2^(j % 8)) % 2
      st == FoldLeft(LAMBDA acc, p :           \* p runs over stream positions 8, 9, ..
                       IF acc.i > NN - 1 THEN acc
                       ELSE LET b == stream[p + 1]
                            IN IF b > acc.i THEN acc
                               ELSE [i |-> acc.i + 1, k |-> acc.k + 1,
                                     c |-> [acc.c EXCEPT ![acc.i + 1] = acc.c[b + 1], ![b + 1] = 1 - 2 * SignBit(acc.k)]],
                     [i |-> NN - TAU, k |-> 0, c |-> [x \in 1..NN |-> 0]],
                     [p \in 1..(Len(stream) - 8) |-> p + 7])
  IN st.c

UniformStream(rho, i, j) == Hash(SHAKE128, rho \o <<j, i>>, 1008)        \* nonce (i << 8) + j, low byte first
EtaStream(rhoPrime, nonce) == Hash(SHAKE256, rhoPrime \o Le16(nonce), 272)
Gamma1Stream(rhoPP, nonce) == Hash(SHAKE256, rhoPP \o Le16(nonce), 680)
ChallengeStream(cTilde) == Hash(SHAKE256, cTilde, 272)

MatrixEntry(rho, i, j) == RejUniform(UniformStream(rho, i, j))            \* i in 0..K-1, j in 0..L-1

---------------------------------------------------------------------------
(* ring arithmetic, plain.  As in the Dilithium specification the matrix A is sampled  *)
(* directly in the NTT domain (ExpandA yields A-hat), so products with A are          *)
(*   A s = NTT^-1( A-hat o NTT(s) )                                                   *)
(* with NTT defined mathematically: evaluation at the 256 roots of X^256 + 1 in the   *)
(* reference order, slot 2i = r^brv8(128+i), slot 2i+1 = -r^brv8(128+i), r = 1753.    *)

Brv8(k) == LET b(i) == (k \div 2^i) % 2 IN b(0) * 128 + b(1) * 64 + b(2) * 32 + b(3) * 16 + b(4) * 8 + b(5) * 4 + b(6) * 2 + b(7)
RECURSIVE PowMod(_, _)
PowMod(x, n) == IF n = 0 THEN 1 ELSE IF n % 2 = 0 THEN LET h == PowMod(x, n \div 2) IN MulMod(h, h) ELSE MulMod(x, PowMod(x, n - 1))
ROOT == 1753
EvalPoints == [m \in 1..NN |-> LET base == PowMod(ROOT, Brv8(128 + ((m - 1) \div 2))) IN IF (m - 1) % 2 = 0 THEN base ELSE Q - base]
InvPoints == [m \in 1..NN |-> PowMod(EvalPoints[m], Q - 2)]
Inv256 == PowMod(256, Q - 2)

\* a(x) mod q by Horner's rule, coefficients of any sign
EvalAt(a, x) == FoldLeft(LAMBDA acc, n : (MulMod(acc, x) + (a[NN - n] % Q)) % Q, 0, [n \in 1..NN |-> n - 1])
NTTDef(a) == [m \in 1..NN |-> EvalAt(a, EvalPoints[m])]

\* the same linear map computed by the Cooley-Tukey network of the reference implementation,
\* in plain arithmetic modulo q (no Montgomery form): layer `len` multiplies the upper half of
\* every block of 2*len coefficients by zeta_k = r^brv8(k), k = 128/len + block number.
\* MCDilithiumEq checks NTT(X^n) = NTTDef(X^n) for all 256 unit vectors; both maps are linear.
Zeta(k) == PowMod(ROOT, Brv8(k))
ZetaTable == [k \in 1..255 |-> Zeta(k)]
Layer(a, len) ==
  [idx \in 1..NN |->
     LET i == idx - 1
         blk == i \div (2 * len)
         pos == i % (2 * len)
         z == ZetaTable[(128 \div len) + blk]
     IN IF pos < len THEN (a[idx] + MulMod(z, a[idx + len])) % Q
        ELSE (a[idx - len] + Q - MulMod(z, a[idx])) % Q]
NTT(a) == FoldLeft(Layer, [m \in 1..NN |-> a[m] % Q], <<128, 64, 32, 16, 8, 4, 2, 1>>)
\* coefficient k (0-based) of NTT^-1(ahat)
InvNTTAt(ahat, k) ==
  MulMod(Inv256, FoldLeft(LAMBDA acc, m : (acc + MulMod(ahat[m], PowMod(InvPoints[m], k))) % Q, 0, [m \in 1..NN |-> m]))
PointwiseAcc(acc, a, b) == [m \in 1..NN |-> (acc[m] + MulMod(a[m], b[m])) % Q]
ZeroPoly == [m \in 1..NN |-> 0]

\* c * s for the sparse challenge c (entries -1, 0, 1) and small s: all coefficients, as integers
SparseMul(c, s) ==
  LET nz == SelectSeq([i \in 1..NN |-> i - 1], LAMBDA i : c[i + 1] # 0)
  IN [k \in 1..NN |->
        FoldLeft(LAMBDA acc, i : LET j == (k - 1) - i
                                 IN acc + (IF j >= 0 THEN c[i + 1] * s[j + 1] ELSE -(c[i + 1] * s[j + NN + 1])),
                 0, nz)]

---------------------------------------------------------------------------
(* key generation: cryptoSignKeypair(SHAKE256(seed48)[0:32]) *)

KeySeeds(seed48) ==
  LET e == Hash(SHAKE256, Hash(SHAKE256, seed48, 32), 128)
  IN [rho |-> SubSeq(e, 1, 32), rhoPrime |-> SubSeq(e, 33, 96), key |-> SubSeq(e, 97, 128)]

S1(rhoPrime) == [i \in 1..LL |-> RejEta(EtaStream(rhoPrime, i - 1))]
S2(rhoPrime) == [i \in 1..KK |-> RejEta(EtaStream(rhoPrime, LL + i - 1))]

\* row i of A-hat times a vector given in the NTT domain: sum_j A-hat[i][j] o vhat[j]
RowTimes(rho, vhat, i) ==
  FoldLeft(LAMBDA acc, j : PointwiseAcc(acc, MatrixEntry(rho, i, j), vhat[j + 1]), ZeroPoly, [j \in 1..LL |-> j - 1])

\* t[i][k] = (NTT^-1(sum_j A-hat[i][j] o NTT(s1[j])))[k] + s2[i][k]  mod q   (i, k 0-based)
TAt(rho, s1hat, s2, i, k) == (InvNTTAt(RowTimes(rho, s1hat, i), k) + s2[i + 1][k + 1]) % Q

\* field layout of the keys
PkRho(pk) == SubSeq(pk, 1, 32)
PkT1(pk, i) == UnpackPoly("t1", NN, SubSeq(pk, 33 + 320 * i, 32 + 320 * (i + 1)))          \* i = 0..7
SkRho(sk) == SubSeq(sk, 1, 32)
SkKey(sk) == SubSeq(sk, 33, 64)
SkTr(sk)  == SubSeq(sk, 65, 96)
SkS1(sk, i) == UnpackPoly("eta", NN, SubSeq(sk, 97 + 96 * i, 96 + 96 * (i + 1)))           \* i = 0..6
SkS2(sk, i) == UnpackPoly("eta", NN, SubSeq(sk, 769 + 96 * i, 768 + 96 * (i + 1)))         \* i = 0..7
SkT0(sk, i) == UnpackPoly("t0", NN, SubSeq(sk, 1537 + 416 * i, 1536 + 416 * (i + 1)))      \* i = 0..7

---------------------------------------------------------------------------
(* signing *)

Mu(tr, msg) == Hash(SHAKE256, tr \o msg, 64)
RhoPP(key, mu) == Hash(SHAKE256, key \o mu, 64)
Y(rhoPP, kappa, i) == Gamma1Poly(Gamma1Stream(rhoPP, LL * kappa + i))      \* iteration kappa (0-based), polynomial i

\* signature layout
SigC(sig) == SubSeq(sig, 1, 32)
SigZ(sig, i) == UnpackPoly("z", NN, SubSeq(sig, 33 + 640 * i, 32 + 640 * (i + 1)))         \* i = 0..6
SigHint(sig) == SubSeq(sig, 33 + 640 * LL, 32 + 640 * LL + OMEGA + KK)

PolyAdd(a, b) == [k \in 1..NN |-> a[k] + b[k]]
MaxAbs(p) == FoldLeft(LAMBDA acc, x : IF Abs(x) > acc THEN Abs(x) ELSE acc, 0, p)
=============================================================================
