------------------------------ MODULE HashOracle ------------------------------
(***************************************************************************)
(* The hash primitives as an oracle: a table of (algorithm, input) ->      *)
(* output rows RECORDED from the real code's hash calls (each row audited  *)
(* by the harness against the Go standard library called directly), and,   *)
(* for an input that is not in the table, a fallback that runs the same    *)
(* standard-library primitive in a helper process (cmd/hashtool).          *)
(* The table is bucketed by a polynomial checksum so that a lookup is an   *)
(* array access plus tuple comparisons.                                    *)
(*   alg 0 = SHA-256, 1 = SHAKE-128/32 bytes, 2 = SHAKE-256/32 bytes,      *)
(*   3 = SHAKE-256/96 bytes, 100 = SHAKE-128/n bytes, 101 = SHAKE-256/n    *)
(***************************************************************************)
EXTENDS Integers, Sequences, SequencesExt, IOUtils, Json, TLC

Table == JsonDeserialize(IOEnv.VERIF_TABLE)
NBuckets == 16384
ToolPath == IOEnv.VERIF_HASHTOOL
ReqPath == IOEnv.VERIF_ORACLE_REQ
RespPath == IOEnv.VERIF_ORACLE_RESP

BucketOf(alg, in) == FoldLeft(LAMBDA acc, b : (acc * 31 + b) % NBuckets, alg % NBuckets, in)

\* the fallback: standard-library hash in a helper process (which also logs the call,
\* so that the driver can report how often the recorded table did not have the row)
OracleCall(alg, in, outLen) ==
  LET w == JsonSerialize(ReqPath, <<alg, outLen, in>>)
      r == IF w THEN IOExec(<<ToolPath, ReqPath, RespPath>>) ELSE [exitValue |-> 1]
  IN IF r.exitValue = 0 THEN JsonDeserialize(RespPath) ELSE <<-1>>

Hash(alg, in, outLen) ==
  LET rows == Table.buckets[BucketOf(alg, in) + 1]
      hit  == SelectSeq(rows, LAMBDA r : r.alg = alg /\ r.in = in /\ Len(r.out) = outLen)
  IN IF Len(hit) > 0 THEN hit[1].out ELSE OracleCall(alg, in, outLen)

=============================================================================
