--------------------------- MODULE MCDilithiumPack ---------------------------
(* Lane arithmetic of the generic packer: for every packer, every value of a   *)
(* lane (with its neighbours at their extremes) survives pack/unpack, and      *)
(* every byte group re-packs to itself.  8 values per group.                   *)
EXTENDS DilithiumPack, TLC
CONSTANTS Kind, ValStride
VARIABLES lane, v, nb, phase
W == Width(Kind)
MaxV == 2^W - 1
VSet == {x \in 0..MaxV : x % ValStride = 0 \/ x = MaxV \/ x \in {1, 2, 255, 256}}
Init == lane = 1 /\ v = 0 /\ nb = 0 /\ phase = 0
Next == \/ phase = 0 /\ lane' \in 1..8 /\ nb' \in {0, MaxV} /\ phase' = 1 /\ UNCHANGED v
        \/ phase = 1 /\ v' \in VSet /\ phase' = 2 /\ UNCHANGED <<lane, nb>>
Vals == [i \in 1..8 |-> IF i = lane THEN v ELSE nb]
RoundTrip == phase = 2 =>
  /\ UnpackBits(W, 8, PackBits(W, Vals)) = Vals
  /\ Len(PackBits(W, Vals)) = W
  /\ PackBits(W, UnpackBits(W, 8, PackBits(W, Vals))) = PackBits(W, Vals)
CoeffRoundTrip == phase = 2 => Coeff(Kind, Stored(Kind, Coeff(Kind, v))) = Coeff(Kind, v)
=============================================================================
