--------------------------- MODULE MCDilithiumPack ---------------------------
(* Lane arithmetic of the generic packer: for every packer, every value of a   *)
(* lane (with its neighbours at their extremes) survives pack/unpack, and      *)
(* every byte group re-packs to itself.  8 values per group.                   *)
EXTENDS DilithiumPack, TLC
CONSTANTS Kind, ValStride
VARIABLES lane, v, nb, phase, vhi
W == Width(Kind)
MaxV == 2^W - 1
Keep(x) == x % ValStride = 0 \/ x = MaxV \/ x \in {1, 2, 255, 256}
\* values are chosen in two steps (block of 1024, then value): one set of 2^20 successors exceeds TLC's set bound
\* and would be enumerated by a single worker
Blocks == 0..(MaxV \div 1024)
Block(b) == {x \in (b * 1024)..(IF b * 1024 + 1023 < MaxV THEN b * 1024 + 1023 ELSE MaxV) : Keep(x)}
Init == lane = 1 /\ v = 0 /\ nb = 0 /\ phase = 0 /\ vhi = 0
Next == \/ phase = 0 /\ lane' \in 1..8 /\ nb' \in {0, MaxV} /\ vhi' \in Blocks /\ phase' = 1 /\ UNCHANGED v
        \/ phase = 1 /\ v' \in Block(vhi) /\ phase' = 2 /\ UNCHANGED <<lane, nb, vhi>>
Vals == [i \in 1..8 |-> IF i = lane THEN v ELSE nb]
RoundTrip == phase = 2 =>
  /\ UnpackBits(W, 8, PackBits(W, Vals)) = Vals
  /\ Len(PackBits(W, Vals)) = W
  /\ PackBits(W, UnpackBits(W, 8, PackBits(W, Vals))) = PackBits(W, Vals)
CoeffRoundTrip == phase = 2 => Coeff(Kind, Stored(Kind, Coeff(Kind, v))) = Coeff(Kind, v)
=============================================================================
