------------------------------ MODULE HintCodec ------------------------------
(***************************************************************************)
(* The hint section of a Dilithium signature (dilithium/packing.go,        *)
(* packSig:97-113 and unpackSig:132-155): HOMEGA index bytes followed by   *)
(* HK cumulative counts.  Parameters are constants so that the codec can   *)
(* be checked exhaustively at small sizes and applied to recorded          *)
(* signatures at the real ones (HK = 8, HOMEGA = 75, HN = 256).            *)
(* Byte strings are 1-based sequences; a hint vector is a sequence of HK   *)
(* sets of coefficient positions 0..HN-1.                                  *)
(***************************************************************************)
EXTENDS Integers, Sequences, FiniteSets, SequencesExt

CONSTANTS HK, HOMEGA, HN

Weight(h) == FoldLeft(LAMBDA acc, i : acc + Cardinality(h[i]), 0, [i \in 1..HK |-> i])

SortedSeq(S) == SortSeq(SetToSeq(S), LAMBDA x, y : x < y)

\* packSig: positions of each row in increasing order, then the running count after each row.
\* Defined for Weight(h) <= HOMEGA (the signer rejects heavier vectors).
Encode(h) ==
  LET idx == FoldLeft(LAMBDA acc, i : acc \o SortedSeq(h[i]), <<>>, [i \in 1..HK |-> i])
      cnt == [i \in 1..HK |-> FoldLeft(LAMBDA acc, r : acc + Cardinality(h[r]), 0, [r \in 1..i |-> r])]
  IN [p \in 1..(HOMEGA + HK) |->
        IF p <= Len(idx) THEN idx[p] ELSE IF p <= HOMEGA THEN 0 ELSE cnt[p - HOMEGA]]

\* unpackSig's hint loop.  Result: [ok, h, touched] where touched is the set of byte
\* positions (0-based, as in the Go code) the decoder read
RowStep(st, i, b) ==           \* one iteration of `for i := 0; i < K; i++`
  IF ~st.ok THEN st
  ELSE LET cnt == b[HOMEGA + i + 1]
           t1  == st.touched \cup {HOMEGA + i}
       IN IF cnt < st.k \/ cnt > HOMEGA THEN [st EXCEPT !.ok = FALSE, !.touched = t1]
          ELSE LET js == st.k..(cnt - 1)
                   bad == \E j \in js : j > st.k /\ b[j + 1] <= b[j]
                   \* the code stops at the first unordered pair; positions read up to there
               IN [ok |-> ~bad, k |-> cnt,
                   h |-> [st.h EXCEPT ![i + 1] = {b[j + 1] : j \in js}],
                   touched |-> t1 \cup js \cup {j - 1 : j \in {x \in js : x > st.k}}]

Decode(b) ==
  LET st == FoldLeft(LAMBDA acc, i : RowStep(acc, i, b),
                     [ok |-> TRUE, k |-> 0, h |-> [i \in 1..HK |-> {}], touched |-> {}],
                     [i \in 1..HK |-> i - 1])
      tail == IF st.ok THEN st.k..(HOMEGA - 1) ELSE {}
      padOK == \A j \in tail : b[j + 1] = 0
  IN [ok |-> st.ok /\ padOK, h |-> st.h, touched |-> st.touched \cup tail]

\* the canonical form, stated independently of the decoding loop
Count(b, i) == b[HOMEGA + i]                       \* i in 1..HK
CountBefore(b, i) == IF i = 1 THEN 0 ELSE Count(b, i - 1)
HintCanonical(b) ==
  /\ \A i \in 1..HK : Count(b, i) >= CountBefore(b, i) /\ Count(b, i) <= HOMEGA
  /\ \A i \in 1..HK : \A j \in (CountBefore(b, i) + 2)..Count(b, i) : b[j] > b[j - 1]
  /\ \A j \in (Count(b, HK) + 1)..HOMEGA : b[j] = 0
=============================================================================
