------------------------------ MODULE TraceXmssEq ------------------------------
(***************************************************************************)
(* Trace validation of XMSS key generation and signing against XmssEq.tla  *)
(* (C06).  Events:                                                         *)
(*  key   seed, height, hash function, the public key the library returned *)
(*        and the 2^h leaf values it computed; `complete` lists the leaves *)
(*        whose WOTS chains and L-tree are recomputed from the equations   *)
(*        (quick tier: some; thorough: all) - the others are taken as the  *)
(*        library computed them and enter only the tree equations          *)
(*  sig   index, message and the signature bytes the library returned for  *)
(*        the key of the preceding key event (field key refers to it)      *)
(*  same  Verify / VerifyWithCustomWOTSParamW(16) agreement and repeated   *)
(*        construction determinism, as booleans computed by the harness    *)
(***************************************************************************)
EXTENDS XmssEq

Trace == ndJsonDeserialize(IOEnv.VERIF_TRACE)
ResultPath == IOEnv.VERIF_RESULT

When(c, s) == IF c THEN <<s>> ELSE <<>>

\* a sig event carries the fields of its key (seed, hf, h, leaves), so events are judged independently
KeyOf(e) == e
Exp(k) == Expand(k.seed)

JudgeKey(e) ==
  LET x == Exp(e)
      pub == PubSeed(x)
      leafBad == {i \in {e.complete[j] : j \in 1..Len(e.complete)} : Leaf(e.hf, SkSeed(x), pub, i) # e.leaves[i + 1]}
      lv == TreeLevels(e.hf, e.leaves, pub)
  IN When(leafBad # {}, "a leaf (WOTS public key compressed by the L-tree) is not the value the scheme's equations give")
     \o When(e.pk # PublicKey(e.hf, e.h, RootOf(lv), pub), "public key is not descriptor || root of the full Merkle tree || PUB_SEED")
     \o When(Len(e.leaves) # 2^e.h, "harness: wrong number of leaves")

JudgeSig(e) ==
  LET k == KeyOf(e)
      x == Exp(k)
      lv == TreeLevels(k.hf, k.leaves, PubSeed(x))
  IN When(e.sig # Signature(k.hf, k.h, x, lv, e.idx, e.msg), "signature is not the one the scheme's equations give for (seed, index, message)")

JudgeSigHead(e) ==
  When(e.head # SignatureHead(e.hf, Exp(e), e.root, e.idx, e.msg),
       "index, randomiser and WOTS part of the signature are not the ones the scheme's equations give for (seed, index, message)")
  \o When(e.pkseed # PubSeed(Exp(e)), "PUB_SEED in the public key is not the one expanded from the seed")

JudgeSame(e) ==
  When(~e.same16, "Verify and VerifyWithCustomWOTSParamW(w = 16) disagree")
  \o When(~e.deterministic, "two constructions from the same seed and parameters gave different keys, addresses or signatures")
  \o When(~e.verifies, "signature does not verify")

Judge(e) ==
  CASE e.ev = "key" -> JudgeKey(e)
    [] e.ev = "sig" -> JudgeSig(e)
    [] e.ev = "sighead" -> JudgeSigHead(e)
    [] e.ev = "same" -> JudgeSame(e)
    [] OTHER -> <<"unknown event">>
\* rows the library recorded that failed the audit, and oracle fall-backs, are reported by the driver
DriftOf(e) == <<>>

VARIABLES l, viols, nviol, drift, counts, done
K == INSTANCE TraceKit WITH Judge <- Judge, Drift <- DriftOf
Spec == K!Spec
View == K!View
=============================================================================
