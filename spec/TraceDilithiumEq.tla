---------------------------- MODULE TraceDilithiumEq ----------------------------
(***************************************************************************)
(* Trace validation of Dilithium key generation and signing against        *)
(* DilithiumEq.tla (C07).                                                  *)
(*  keygen  seed -> (pk, sk) as the library returned them.  Complete: the  *)
(*          seed expansion, rho/key/tr fields, s1 and s2 (sampler          *)
(*          equations on SHAKE streams), sizes.  At the listed (row,       *)
(*          coefficient) positions: t = A s1 + s2 with A from the sampler  *)
(*          equations, Power2Round, and the t1 / t0 fields.                *)
(*  sign    message -> signature with the loop iterations seen by the      *)
(*          hook (exit, nonce, challenge seed of the iteration).  Complete:*)
(*          mu, rho'', y of EVERY iteration, its challenge polynomial,     *)
(*          z = y + c s1 and its norm (so that every z-rejection and the   *)
(*          accepted z are decided exactly), the packed z of the           *)
(*          signature, canonicity of the hint section.  At the listed      *)
(*          positions: w = A y exactly, its decomposition, c s2, c t0 and  *)
(*          the hint bit.                                                  *)
(*  repeat  the same message signed again in another call order: equal     *)
(*          bytes (history-free).                                          *)
(*  sampler the rejection samplers on crafted streams (boundary values).   *)
(***************************************************************************)
EXTENDS DilithiumEq, HintCodec

Trace == ndJsonDeserialize(IOEnv.VERIF_TRACE)
ResultPath == IOEnv.VERIF_RESULT

When(c, s) == IF c THEN <<s>> ELSE <<>>

JudgeKeygen(e) ==
  LET ks == KeySeeds(e.seed)
      s1 == S1(ks.rhoPrime)
      s2 == S2(ks.rhoPrime)
      s1hat == [j \in 1..LL |-> NTT(s1[j])]
      badPos == {p \in {e.positions[x] : x \in 1..Len(e.positions)} :
                   LET i == p[1] k == p[2]
                       t == TAt(ks.rho, s1hat, s2, i, k)
                       r == Power2RoundDef(t)
                   IN PkT1(e.pk, i)[k + 1] # r.hi \/ SkT0(e.sk, i)[k + 1] # r.lo}
  IN When(Len(e.pk) # 2592 \/ Len(e.sk) # 4864, "key sizes")
     \o When(PkRho(e.pk) # ks.rho \/ SkRho(e.sk) # ks.rho, "rho is not bytes 0..31 of SHAKE256(SHAKE256(seed)[0:32])")
     \o When(SkKey(e.sk) # ks.key, "key is not bytes 96..127 of the seed expansion")
     \o When(SkTr(e.sk) # Hash(SHAKE256, e.pk, 32), "tr is not SHAKE256(pk)[0:32]")
     \o When(\E i \in 0..(LL - 1) : SkS1(e.sk, i) # s1[i + 1], "s1 is not the eta-sampler output for nonces 0..L-1")
     \o When(\E i \in 0..(KK - 1) : SkS2(e.sk, i) # s2[i + 1], "s2 is not the eta-sampler output for nonces L..L+K-1")
     \o When(badPos # {}, "t1 / t0 are not Power2Round(A s1 + s2) at a checked coefficient")

JudgeSign(e) ==
  LET sk == e.sk            \* the secret key of the signing object (its own keygen event checks it)
      mu == Mu(SkTr(sk), e.msg)
      rpp == RhoPP(SkKey(sk), mu)
      s1 == [i \in 1..LL |-> SkS1(sk, i - 1)]
      nIt == Len(e.iters)
      \* per iteration: z = y + c s1 for the iteration's challenge seed
      ZOf(it) == LET c == Challenge(ChallengeStream(it.c))
                 IN [i \in 1..LL |-> PolyAdd(Y(rpp, it.nonce - 1, i - 1), SparseMul(c, s1[i]))]
      MaxZ(it) == LET z == ZOf(it) IN FoldLeft(LAMBDA acc, i : IF MaxAbs(z[i]) > acc THEN MaxAbs(z[i]) ELSE acc, 0, [i \in 1..LL |-> i])
      last == e.iters[nIt]
      zAcc == ZOf(last)
      cAcc == Challenge(ChallengeStream(SigC(e.sig)))
      hint == Decode(SigHint(e.sig))
      rho == SkRho(sk)
      yhat == [j \in 1..LL |-> NTT(Y(rpp, last.nonce - 1, j - 1))]
      badPos == {p \in {e.positions[x] : x \in 1..Len(e.positions)} :
                   LET i == p[1] kk == p[2]
                       w == InvNTTAt(RowTimes(rho, yhat, i), kk)
                       d == DecomposeDef(w)
                       cs2 == SparseMul(cAcc, SkS2(sk, i))[kk + 1]
                       ct0 == SparseMul(cAcc, SkT0(sk, i))[kk + 1]
                       hb == MakeHintDef(d.lo - cs2 + ct0, d.hi)
                   IN hb # (IF kk \in hint.h[i + 1] THEN 1 ELSE 0)}
  IN When(\E x \in 1..nIt : e.iters[x].nonce # x, "iteration numbering")
     \o When(\E x \in 1..nIt : (e.iters[x].exit = 1) # (MaxZ(e.iters[x]) >= GAMMA1 - BETA) /\ e.iters[x].exit \in {0, 1},
             "an iteration was (not) rejected for z although the specification's z norm says otherwise")
     \o When(\E x \in 1..nIt : e.iters[x].exit # 1 /\ MaxZ(e.iters[x]) >= GAMMA1 - BETA, "an iteration passed the z test with z out of range")
     \o When(SigC(e.sig) # last.c, "challenge seed in the signature is not the accepted iteration's")
     \o When(\E i \in 0..(LL - 1) : SigZ(e.sig, i) # zAcc[i + 1], "z in the signature is not y + c s1 of the accepted iteration")
     \o When(~hint.ok, "hint section of the signature is not canonical")
     \o When(badPos # {}, "hint bit differs from MakeHint(w0 - c s2 + c t0, w1) with w = A y at a checked coefficient")
     \o When(Len(e.sig) # 4595, "signature size")

\* a run of the signing loop given by its exact scalars: every iteration must leave through the exit
\* the specification's tests select (first failing test in the order z, w0 - c s2, c t0, hints), so
\* that the library returns the SAME candidate as the specification also when a test is met with equality
SpecExit(it) ==
  IF it.maxz >= GAMMA1 - BETA THEN 1
  ELSE IF it.maxw0 >= GAMMA2 - BETA THEN 2
  ELSE IF it.maxct0 >= GAMMA2 THEN 3
  ELSE IF it.hints > OMEGA THEN 4
  ELSE 0
JudgeLoop(e) ==
  LET n == Len(e.iters)
  IN When(\E x \in 1..n : e.iters[x].nonce # x, "iteration numbering")
     \o When(\E x \in 1..n : e.iters[x].exit # SpecExit(e.iters[x]),
             "an iteration left the signing loop through another exit than the specification's tests select for its norms and hint count")
     \o When(n = 0 \/ e.iters[n].exit # 0 \/ \E x \in 1..(n - 1) : e.iters[x].exit = 0, "the loop did not end with its first accepted candidate")

JudgeRepeat(e) == When(~e.same, "signing the same message again gave different bytes")

JudgeSampler(e) ==
  CASE e.kind = "rejuniform" -> When(SubSeq(RejUniform(e.buf), 1, e.ctr) # e.out \/ Len(RejUniform(e.buf)) # e.ctr, "rejUniform differs from the 23-bit rejection sampler")
    [] e.kind = "rejeta" -> When(SubSeq(RejEta(e.buf), 1, e.ctr) # e.out \/ Len(RejEta(e.buf)) # e.ctr, "rejEta differs from the nibble rejection sampler")
    [] e.kind = "challenge" -> When(Challenge(ChallengeStream(e.buf)) # e.out, "polyChallenge differs from the specified sampler")
    [] e.kind = "gamma1" -> When(Gamma1Poly(Gamma1Stream(e.buf, e.ctr)) # e.out, "polyUniformGamma1 differs from the specified sampler")
    [] e.kind = "uniform" -> When(RejUniform(Hash(SHAKE128, e.buf \o Le16(e.ctr), 1008)) # e.out, "polyUniform differs from the specified sampler")
    [] e.kind = "eta" -> When(RejEta(EtaStream(e.buf, e.ctr)) # e.out, "polyUniformEta differs from the specified sampler")
    [] OTHER -> <<"unknown sampler">>

Judge(e) ==
  CASE e.ev = "keygen" -> JudgeKeygen(e)
    [] e.ev = "sign" -> JudgeSign(e)
    [] e.ev = "repeat" -> JudgeRepeat(e)
    [] e.ev = "loop" -> JudgeLoop(e)
    [] e.ev = "sampler" -> JudgeSampler(e)
    [] OTHER -> <<"unknown event">>
DriftOf(e) == <<>>

VARIABLES l, viols, nviol, drift, counts, done
K == INSTANCE TraceKit WITH Judge <- Judge, Drift <- DriftOf
Spec == K!Spec
View == K!View
=============================================================================
