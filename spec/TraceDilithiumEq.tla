---------------------------- MODULE TraceDilithiumEq ----------------------------
(***************************************************************************)
(* Trace validation of Dilithium key generation and signing against        *)
(* DilithiumEq.tla (C07).                                                  *)
(*  keygen  seed -> (pk, sk) as the library returned them.  Complete: the  *)
(*          seed expansion, rho/key/tr fields, s1 and s2 (sampler          *)
(*          equations on SHAKE streams), sizes.  At the listed (row,       *)
(*          coefficient) positions: t = A s1 + s2 with A from the sampler  *)
(*          equations, Power2Round, and the t1 / t0 fields.                *)
(*  sign    message -> signature with the loop iterations seen by the      *)
(*          hook (exit, nonce, challenge seed of the iteration).  Complete:*)
(*          mu, rho'', y of EVERY iteration, its challenge polynomial,     *)
(*          z = y + c s1 and its norm (so that every z-rejection and the   *)
(*          accepted z are decided exactly), the packed z of the           *)
(*          signature, canonicity of the hint section.  At the listed      *)
(*          positions: w = A y exactly, its decomposition, c s2, c t0 and  *)
(*          the hint bit.                                                  *)
(*  repeat  the same message signed again in another call order: equal     *)
(*          bytes (history-free).                                          *)
(*  sampler the rejection samplers on crafted streams (boundary values).   *)
(***************************************************************************)
EXTENDS DilithiumEq, HintCodec

Trace == ndJsonDeserialize(IOEnv.VERIF_TRACE)
ResultPath == IOEnv.VERIF_RESULT

When(c, s) == IF c THEN <<s>> ELSE <<>>

JudgeKeygen(e) ==
  LET kg == KeyGen(e.seed)
  IN When(Len(e.pk) # 2592 \/ Len(e.sk) # 4864, "key sizes")
     \o When(e.pk # kg.pk, "public key is not KeyGen_spec(SHAKE256(seed)[0:32]).pk  (rho || pack10(t1), t = A s1 + s2)")
     \o When(e.sk # kg.sk, "secret key is not KeyGen_spec(..).sk  (rho || key || tr || eta(s1) || eta(s2) || pack13(t0))")

\* the whole signing algorithm: every iteration the library went through is recomputed from (sk, message)
\* - y, w = A y, w1, the challenge seed H(mu || w1), c, z, the three norms, the hints - and must leave
\* through the logged exit; the accepted one must give the signature bytes
JudgeSign(e) ==
  LET sk == e.sk
      rho == SkRho(sk)
      A == AHat(rho)
      s1 == Force([i \in 1..LL |-> SkS1(sk, i - 1)], LL)
      s2 == Force([i \in 1..KK |-> SkS2(sk, i - 1)], KK)
      t0 == Force([i \in 1..KK |-> SkT0(sk, i - 1)], KK)
      mu == Mu(SkTr(sk), e.msg)
      rpp == RhoPP(SkKey(sk), mu)
      nIt == Len(e.iters)
      its == Force([x \in 1..nIt |-> SignIteration(A, s1, s2, t0, mu, rpp, x - 1)], nIt)
      last == its[nIt]
      sigSpec == last.ct \o Concat([i \in 1..LL |-> PackPoly("z", last.z[i])]) \o Encode(last.hint)
  IN When(\E x \in 1..nIt : e.iters[x].nonce # x, "iteration numbering")
     \o When(\E x \in 1..nIt : its[x].exit # e.iters[x].exit,
             "an iteration left the signing loop through another exit than Sign_spec does (exact norms and hint count recomputed from sk and message)")
     \o When(\E x \in 1..nIt : its[x].ct # e.iters[x].c, "challenge seed of an iteration is not H(mu || pack(HighBits(A y)))")
     \o When(last.exit = 0 /\ e.sig # sigSpec, "signature is not Sign_spec(sk, message): c~ || pack20(z) || hints")
     \o When(Len(e.sig) # 4595, "signature size")

\* a run of the signing loop given by its exact scalars: every iteration must leave through the exit
\* the specification's tests select (first failing test in the order z, w0 - c s2, c t0, hints), so
\* that the library returns the SAME candidate as the specification also when a test is met with equality
SpecExit(it) ==
  IF it.maxz >= GAMMA1 - BETA THEN 1
  ELSE IF it.maxw0 >= GAMMA2 - BETA THEN 2
  ELSE IF it.maxct0 >= GAMMA2 THEN 3
  ELSE IF it.hints > OMEGA THEN 4
  ELSE 0
JudgeLoop(e) ==
  LET n == Len(e.iters)
  IN When(\E x \in 1..n : e.iters[x].nonce # x, "iteration numbering")
     \o When(\E x \in 1..n : e.iters[x].exit # SpecExit(e.iters[x]),
             "an iteration left the signing loop through another exit than the specification's tests select for its norms and hint count")
     \o When(n = 0 \/ e.iters[n].exit # 0 \/ \E x \in 1..(n - 1) : e.iters[x].exit = 0, "the loop did not end with its first accepted candidate")

JudgeRepeat(e) == When(~e.same, "signing the same message again gave different bytes")

JudgeSampler(e) ==
  CASE e.kind = "rejuniform" -> When(Len(RejUniform(e.buf)) # e.ctr \/ RejUniform(e.buf) # e.out, "rejUniform differs from the 23-bit rejection sampler")
    [] e.kind = "rejeta" -> When(Len(RejEta(e.buf)) # e.ctr \/ RejEta(e.buf) # e.out, "rejEta differs from the nibble rejection sampler")
    [] e.kind = "challenge" -> When(Challenge(ChallengeStream(e.buf)) # e.out, "polyChallenge differs from the specified sampler")
    [] e.kind = "gamma1" -> When(Gamma1Poly(Gamma1Stream(e.buf, e.ctr)) # e.out, "polyUniformGamma1 differs from the specified sampler")
    [] e.kind = "uniform" -> When(RejUniform(Hash(SHAKE128, e.buf \o Le16(e.ctr), 1008)) # e.out, "polyUniform differs from the specified sampler")
    [] e.kind = "eta" -> When(RejEta(EtaStream(e.buf, e.ctr)) # e.out, "polyUniformEta differs from the specified sampler")
    [] OTHER -> <<"unknown sampler">>

Judge(e) ==
  CASE e.ev = "keygen" -> JudgeKeygen(e)
    [] e.ev = "sign" -> JudgeSign(e)
    [] e.ev = "repeat" -> JudgeRepeat(e)
    [] e.ev = "loop" -> JudgeLoop(e)
    [] e.ev = "sampler" -> JudgeSampler(e)
    [] OTHER -> <<"unknown event">>
DriftOf(e) == <<>>

VARIABLES l, viols, nviol, drift, counts, done
K == INSTANCE TraceKit WITH Judge <- Judge, Drift <- DriftOf
Spec == K!Spec
View == K!View
=============================================================================
