----------------------------- MODULE MCXmssKey -----------------------------
(* Model-checking instances of XmssKey: argument sets for SetIndex. *)
EXTENDS XmssKey

U31MAX == 2147483647

\* every argument around the legal range, from every state
JumpAll(i) == (0..(N + 2)) \cup {U31MAX}

\* distance classes: 0, 1, 2, 3, powers of two and their neighbours, to the last
\* leaf, to and beyond the end, one step back, to zero
JumpClasses(i) ==
  LET dists == {0, 1, 2, 3} \cup UNION {{2^e - 1, 2^e, 2^e + 1} : e \in 2..H}
  IN (({i + d : d \in dists} \cap (0..(N + 2))) \cup {0, i - 1, N - 2, N - 1, N, N + 1, U31MAX}) \ {-1}

JumpNone(i) == {}
=============================================================================
