----------------------------- MODULE XmssKey -----------------------------
(***************************************************************************)
(* One xmss.XMSS object of go-qrllib as a state machine.                   *)
(*                                                                         *)
(*   idx      the secret-key index sk[0:4]            (xmss.go GetIndex)   *)
(*   bds      the BDS traversal state                  (Bds.tla)           *)
(*   outcome  result class of the last public call                         *)
(*   emitted  what the last successful Sign put into its signature:        *)
(*            [idx, auth]  (bytes 0..3 and the trailing H*32 bytes)        *)
(*   maxEmitted  largest index ever embedded in a signature (-1: none)     *)
(*   pkid     public identity (PK, address, seed, extended seed): a token  *)
(*                                                                         *)
(* Actions, one per code site:                                             *)
(*   KeyGen      initializeTree -> XMSSFastGenKeyPair -> treeHashSetup     *)
(*   Sign        XMSS.Sign: SetIndex(current) guard, xmssFastSignMessage   *)
(*   SetIndex(j) XMSS.SetIndex -> xmssFastUpdate                           *)
(* The traversal step appears twice in the library (xmss.go:476-479 and    *)
(* xmss_fast.go:243-250); SignAdvance and JumpAdvance are deliberately two *)
(* definitions so that their agreement is a checked fact, not an identity. *)
(***************************************************************************)
EXTENDS XmssKeyOps

VARIABLES idx, bds, outcome, emitted, maxEmitted, pkid

vars == <<idx, bds, outcome, emitted, maxEmitted, pkid>>

\* arguments SetIndex is tried with in the exhaustive model: everything around the
\* legal range plus the 31-bit maximum (TLC integers are 32-bit; 2^32-1 is the same
\* guard class ">= 2^H" and is concretised by the replayer)
CONSTANT JumpArgs(_)      \* idx |-> set of arguments

Setup == SetupOf(0)

---------------------------------------------------------------------------

Init == /\ idx = 0
        /\ bds = Setup.bds
        /\ outcome = OK
        /\ emitted = NoSig
        /\ maxEmitted = -1
        /\ pkid = "key"

Sign ==
  LET r == SignResult(idx, bds) IN
  /\ idx' = r.idx
  /\ bds' = r.bds
  /\ outcome' = r.outcome
  /\ emitted' = r.emitted
  /\ maxEmitted' = IF r.outcome = OK THEN r.emitted.idx ELSE maxEmitted
  /\ UNCHANGED pkid

SetIndex(j) ==
  LET r == SetIndexResult(idx, bds, j) IN
  /\ idx' = r.idx
  /\ bds' = r.bds
  /\ outcome' = r.outcome
  /\ emitted' = NoSig
  /\ UNCHANGED <<maxEmitted, pkid>>

Next == Sign \/ \E j \in JumpArgs(idx) : SetIndex(j)

Spec == Init /\ [][Next]_vars

---------------------------------------------------------------------------
(* C01: whatever the history, the key is ready to sign at its index and    *)
(* every signature it emits carries the true authentication path           *)

AuthOK == idx < N => AuthOKAt(bds, idx)

EmittedVerifies ==
  emitted # NoSig => /\ emitted.auth = AuthPath(emitted.idx)
                     /\ RootFromPath(emitted.idx, emitted.auth) = ROOT

RootIsRoot == Setup.root = ROOT

NoBadInLiveState == NoBad(bds)
StackOK == StackInBounds(bds) /\ StackAccounted(bds)

(* C02: the counter automaton *)
IdxRange == idx \in 0..N

StrictlyIncreasing ==
  [][(outcome' = OK /\ emitted' # NoSig) => emitted'.idx > maxEmitted]_vars

OneIndexPerSignature ==
  [][(emitted' # NoSig) => (emitted'.idx = idx /\ idx' = idx + 1 /\ emitted'.idx < N)]_vars

RefusalPreservesState ==
  [][(outcome' # OK) => (idx' = idx /\ bds' = bds /\ emitted' = NoSig)]_vars

ExhaustionIsFinal ==
  [][(idx = N) => (idx' = N /\ emitted' = NoSig /\ outcome' # OK)]_vars

NeverBackwards == [][idx' >= idx]_vars
MaxEmittedBelowIdx == maxEmitted < idx

PublicIdentityConstant == [][pkid' = pkid]_vars

\* the counter automaton of the property statement, as a specification that
\* XmssKey must implement (checked with PROPERTY CounterSpec)
CounterInit == idx = 0
CounterSign == IF idx < N THEN idx' = idx + 1 /\ emitted' # NoSig /\ emitted'.idx = idx
                          ELSE idx' = idx /\ emitted' = NoSig
CounterSet(j) == /\ emitted' = NoSig
                 /\ idx' = IF j >= N \/ j < idx THEN idx ELSE j
CounterSpec == CounterInit /\ [][CounterSign \/ \E j \in JumpArgs(idx) : CounterSet(j)]_<<idx, emitted>>

(* C08: the state reached at an index does not depend on the route.        *)
(* CanonSeq[i+1] is the state after i signatures from a fresh key.         *)
CanonSeq == FoldLeft(LAMBDA seq, i : Append(seq, SignAdvance(seq[i + 1], i)), <<Setup.bds>>, Upto(N))

StateIsFunctionOfIdx == bds = CanonSeq[idx + 1]

\* with VIEW View, the number of distinct states must be exactly N + 1
View == <<idx, bds>>
DistinctStates == TLCGet("distinct") = N + 1
=============================================================================
