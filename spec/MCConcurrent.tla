----------------------------- MODULE MCConcurrent -----------------------------
EXTENDS Concurrent
S(o) == [kind |-> "stateless", op |-> o]
Dc(w) == [kind |-> "decode", op |-> w]
Sg == [kind |-> "sign"]
Progs == [g \in {"g1", "g2", "g3"} |->
            CASE g = "g1" -> <<Dc("able"), Sg, S("verify"), Sg>>
              [] g = "g2" -> <<S("dilsign"), Dc("zone"), Sg>>
              [] g = "g3" -> <<Dc("zone"), S("verify"), Dc("able")>>]
WordSet == {"able", "zone", "mid"}
=============================================================================
