------------------------------- MODULE Wrappers -------------------------------
(***************************************************************************)
(* The string wrappers of qrllib-js (dilithiumjs/dilithium.go,             *)
(* xmssjs/xmss.go) as compositions  Wrapper == Core o Sized o HexDecode o  *)
(* Strip0x  on the bytes of the argument strings.                          *)
(***************************************************************************)
EXTENDS Integers, Sequences

HexVal(c) == IF c \in 48..57 THEN c - 48
             ELSE IF c \in 97..102 THEN c - 87
             ELSE IF c \in 65..70 THEN c - 55
             ELSE -1

Invalid == <<-1>>           \* not a byte string: marks "hex.DecodeString returned an error"

\* encoding/hex.DecodeString
HexDecode(chars) ==
  IF Len(chars) % 2 # 0 \/ \E i \in 1..Len(chars) : HexVal(chars[i]) = -1 THEN Invalid
  ELSE [i \in 1..(Len(chars) \div 2) |-> 16 * HexVal(chars[2 * i - 1]) + HexVal(chars[2 * i])]

\* clearPrefix0x: exactly the two characters '0' 'x'
Strip0x(chars) ==
  IF Len(chars) >= 2 /\ chars[1] = 48 /\ chars[2] = 120 THEN SubSeq(chars, 3, Len(chars)) ELSE chars

\* copy(sized[:], decoded): zero padded / truncated; size 0 = a slice, passed as is
Sized(bytes, n) == IF n = 0 THEN bytes ELSE [i \in 1..n |-> IF i <= Len(bytes) THEN bytes[i] ELSE 0]

Decoded(arg) == HexDecode(Strip0x(arg))

HexDigit(n) == IF n < 10 THEN 48 + n ELSE 87 + n
=============================================================================
