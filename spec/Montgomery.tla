----------------------------- MODULE Montgomery -----------------------------
(***************************************************************************)
(* montgomeryReduce (dilithium/reduce.go:3-9) over unbounded integers, for *)
(* Apalache: for EVERY 64-bit operand a with -2^31*q <= a < 2^31*q the     *)
(* result r satisfies r * 2^32 = a (mod q) and -q < r < q.                 *)
(* (TLC's integers are 32-bit; this one module is checked symbolically.)   *)
(* The closed upper end a = 2^31*q would give r = q; no product of two     *)
(* int32 values reaches it.                                                *)
(***************************************************************************)
EXTENDS Integers

VARIABLE
  \* @type: Int;
  a

Q == 8380417
QINV == 58728449
TWO32 == 4294967296
TWO31 == 2147483648

\* int32(x): the signed value of the low 32 bits
Low32(x) == LET m == x % TWO32 IN IF m >= TWO31 THEN m - TWO32 ELSE m

\* t = int32(int64(int32(a)) * QInv);  t = int32((a - int64(t)*Q) >> 32)
Mont(x) == LET t == Low32(Low32(x) * QINV) IN (x - t * Q) \div TWO32

Init == a \in (-(TWO31 * Q))..(TWO31 * Q - 1)
Next == UNCHANGED a

Exact == (a - Low32(Low32(a) * QINV) * Q) % TWO32 = 0       \* the shift discards nothing
Inv == LET r == Mont(a) IN Exact /\ (r * TWO32 - a) % Q = 0 /\ r > -Q /\ r < Q
=============================================================================
