------------------------------- MODULE Wallet -------------------------------
(***************************************************************************)
(* Several xmss.XMSS objects built from ONE seed: the life of a wallet     *)
(* that persists (seed material, index), crashes, and rebuilds.            *)
(*                                                                         *)
(*   obj[o]   Dead, or [idx, bds, params]: a live object                   *)
(*   secret   what has been exported: descriptor bytes (the seed itself is *)
(*            an opaque token: it only flows into SHAKE)                   *)
(*   lastSig[o], lastOutcome[o]  outputs of the last call on o             *)
(*                                                                         *)
(* Actions: Sign(o), SetIndex(o, j) (fast-forward, in one or many jumps),  *)
(* Crash(o), Rebuild(o, kind) with kind in {seed+params, extendedSeed,     *)
(* mnemonic}: the latter two carry the parameters in the 3 descriptor      *)
(* bytes and go through Descriptor!Decode (xmss.go:83-90).                 *)
(*                                                                         *)
(* C08: the state an object has at index i is the same whatever route led  *)
(* there (signing, one jump, several jumps, before or after a rebuild):    *)
(* it equals CanonSeq[i+1], the state after i signatures of a fresh key;   *)
(* hence the signatures at every later index are identical.                *)
(***************************************************************************)
EXTENDS XmssKeyOps, Descriptor

CONSTANTS Obj,          \* object identifiers
          HF,           \* hash function of the wallet's key
          JumpArgs(_)   \* idx |-> arguments tried with SetIndex

VARIABLES obj, lastSig, lastOutcome

wvars == <<obj, lastSig, lastOutcome>>

Setup == SetupOf(0)
Dead == [idx |-> -1]
Alive(o) == obj[o] # Dead
Kinds == {"seed+params", "extendedSeed", "mnemonic"}

Params == [hf |-> HF, sig |-> XMSSSig, height |-> H, af |-> SHA256_2X]

\* GetExtendedSeed / GetMnemonic: descriptor bytes then the seed
ExportedDescriptor == Encode(Params.hf, Params.sig, Params.height, Params.af)

\* parameters a rebuilt object gets
RebuiltParams(kind) == IF kind = "seed+params" THEN Params ELSE Decode(ExportedDescriptor)

CanonSeq == FoldLeft(LAMBDA seq, i : Append(seq, SignAdvance(seq[i + 1], i)), <<Setup.bds>>, Upto(N))

Init == /\ obj = [o \in Obj |-> Dead]
        /\ lastSig = [o \in Obj |-> NoSig]
        /\ lastOutcome = [o \in Obj |-> OK]

Rebuild(o, kind) ==
  /\ ~Alive(o)
  /\ RebuiltParams(kind).height = H         \* otherwise a different tree: flagged by DescriptorRoundTrip
  /\ obj' = [obj EXCEPT ![o] = [idx |-> 0, bds |-> Setup.bds, params |-> RebuiltParams(kind)]]
  /\ lastSig' = [lastSig EXCEPT ![o] = NoSig]
  /\ lastOutcome' = [lastOutcome EXCEPT ![o] = OK]

Crash(o) ==
  /\ Alive(o)
  /\ obj' = [obj EXCEPT ![o] = Dead]
  /\ UNCHANGED <<lastSig, lastOutcome>>

Sign(o) ==
  /\ Alive(o)
  /\ LET r == SignResult(obj[o].idx, obj[o].bds) IN
     /\ obj' = [obj EXCEPT ![o].idx = r.idx, ![o].bds = r.bds]
     /\ lastSig' = [lastSig EXCEPT ![o] = r.emitted]
     /\ lastOutcome' = [lastOutcome EXCEPT ![o] = r.outcome]

SetIndex(o, j) ==
  /\ Alive(o)
  /\ LET r == SetIndexResult(obj[o].idx, obj[o].bds, j) IN
     /\ obj' = [obj EXCEPT ![o].idx = r.idx, ![o].bds = r.bds]
     /\ lastSig' = [lastSig EXCEPT ![o] = NoSig]
     /\ lastOutcome' = [lastOutcome EXCEPT ![o] = r.outcome]

Next == \E o \in Obj :
          \/ Sign(o)
          \/ Crash(o)
          \/ \E kind \in Kinds : Rebuild(o, kind)
          \/ \E j \in JumpArgs(obj[o].idx) : SetIndex(o, j)

Spec == Init /\ [][Next]_wvars

---------------------------------------------------------------------------
DescriptorRoundTrip == \A kind \in Kinds : RebuiltParams(kind) = Params

\* C08: route independence
SameIndexSameState ==
  \A o \in Obj : Alive(o) => obj[o].bds = CanonSeq[obj[o].idx + 1]

TwoObjectsAgree ==
  \A a, b \in Obj : (Alive(a) /\ Alive(b) /\ obj[a].idx = obj[b].idx) => LiveView(obj[a].bds) = LiveView(obj[b].bds)

SameIndexSameSignature ==
  \A o \in Obj : lastSig[o] # NoSig =>
      /\ lastSig[o].auth = CanonSeq[lastSig[o].idx + 1].auth
      /\ lastSig[o].auth = AuthPath(lastSig[o].idx)

RebuildPreservesIdentity == \A o \in Obj : Alive(o) => obj[o].params = Params

\* an exhausted key cannot be fast-forwarded to its saved index 2^H: the call is
\* refused and neither the original nor the rebuilt object signs any more
ExhaustedStaysSilent ==
  [][\A o \in Obj : (Alive(o) /\ obj[o].idx = N) => (obj'[o] = Dead \/ (obj'[o].idx = N /\ lastSig'[o] \in {lastSig[o], NoSig}))]_wvars

WalletView == obj
=============================================================================
