------------------------------ MODULE TraceKit ------------------------------
(***************************************************************************)
(* Skeleton shared by the trace specifications whose events are judged one *)
(* at a time (no state carried between events other than the verdict):     *)
(* consume the ndjson trace line by line, apply Judge to every event,      *)
(* collect what it objects to, write the verdict as JSON at the end.       *)
(* Judge(e) is a sequence of strings: empty = the event is a behaviour     *)
(* the specification allows.  Drift(e) likewise, for differences that are  *)
(* not failures of the property (e.g. the text of a refusal message).      *)
(***************************************************************************)
EXTENDS Integers, Sequences, TLC, Json

CONSTANTS Trace, ResultPath, Judge(_), Drift(_)

VARIABLES l, viols, nviol, drift, counts, done

kvars == <<l, viols, nviol, drift, counts, done>>

MaxViols == 60

Init == /\ l = 1
        /\ viols = <<>>
        /\ nviol = 0
        /\ drift = <<>>
        /\ counts = <<>>
        /\ done = FALSE

Step ==
  /\ l <= Len(Trace)
  /\ ~done
  /\ LET e == Trace[l]
         j == Judge(e)
         d == Drift(e)
     IN /\ viols' = IF Len(viols) < MaxViols
                    THEN viols \o [x \in 1..Len(j) |-> [l |-> l, what |-> j[x]]] ELSE viols
        /\ nviol' = nviol + Len(j)
        /\ drift' = IF Len(drift) < MaxViols
                    THEN drift \o [x \in 1..Len(d) |-> [l |-> l, what |-> d[x]]] ELSE drift
        /\ counts' = IF e.ev \in DOMAIN counts THEN [counts EXCEPT ![e.ev] = @ + 1] ELSE (e.ev :> 1) @@ counts
  /\ l' = l + 1
  /\ done' = FALSE

Finish ==
  /\ l = Len(Trace) + 1
  /\ ~done
  /\ done' = TRUE
  /\ JsonSerialize(ResultPath, [consumed |-> l - 1, len |-> Len(Trace), viols |-> viols, nviol |-> nviol,
                                drift |-> drift, counts |-> counts])
  /\ UNCHANGED <<l, viols, nviol, drift, counts>>

Next == Step \/ Finish
Spec == Init /\ [][Next]_kvars
View == <<l, done>>
=============================================================================
