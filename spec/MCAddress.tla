----------------------------- MODULE MCAddress -----------------------------
(* Design facts about descriptors and the two address spaces, enumerated    *)
(* completely: one state per pair of leading bytes / per field tuple.       *)
EXTENDS Address, TLC
VARIABLES a, b, phase
Init == a = 0 /\ b = 0 /\ phase = 0
Next == \/ phase = 0 /\ a' \in 0..255 /\ phase' = 1 /\ UNCHANGED b
        \/ phase = 1 /\ b' \in 0..255 /\ phase' = 2 /\ UNCHANGED a

\* a, b as the first two bytes of an address / descriptor
Disjoint == phase = 2 => ~(IsValidXMSSAddr(a, b) /\ IsValidDilithiumAddr(a))

ReencodeDropsThirdByte ==
  phase = 2 => \A c \in {0, 1, 255} : ReEncoded(Decode(<<a, b, c>>)) = <<a, b, 0>>

\* a, b as two nibble pairs: (hf, sig) = (a % 16, a \div 16), (height/2, af) = (b % 16, b \div 16)
FieldsRoundTrip ==
  phase = 2 =>
    LET hf == a % 16  sig == a \div 16  ht == 2 * (b % 16)  af == b \div 16
    IN Decode(Encode(hf, sig, ht, af)) = Fields(hf, sig, ht, af)

\* an address derived for an XMSS key (signature type 0, address format 0) is XMSS-valid
\* and not Dilithium-valid, whatever the hash function and height nibbles are
XmssAddrValid ==
  phase = 2 =>
    LET pk == <<a % 16, b % 16, 0>> \o [i \in 1..64 |-> 0]
        r  == XmssAddr(pk, [i \in 1..32 |-> (a + i) % 256])
    IN r.kind = "value" /\ IsValidXMSS(r.v) /\ ~IsValidDilithium(r.v) /\ Len(r.v) = 20

\* a Dilithium address is Dilithium-valid and NOT XMSS-valid for every value of its
\* second byte (a digest byte; the XMSS validator reads the address format from it)
DilAddrValid ==
  phase = 2 =>
    LET adr == DilAddr([i \in 1..32 |-> IF i = 14 THEN b ELSE (a + i) % 256])
    IN IsValidDilithium(adr) /\ ~IsValidXMSS(adr) /\ Len(adr) = 20 /\ adr[2] = b
=============================================================================
