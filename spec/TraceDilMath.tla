----------------------------- MODULE TraceDilMath -----------------------------
(***************************************************************************)
(* Trace validation of the Dilithium arithmetic (C12).  The "trace" of a   *)
(* function with an enumerable domain is its COMPLETE input/output table,  *)
(* computed by calling the real function on every operand and compressed   *)
(* losslessly into maximal affine segments: on [lo, hi] the outputs are    *)
(* out_k(a) = c_k + s_k * a with slope s_k in {0, 1}.  Two piecewise       *)
(* affine functions with equal slopes agree on an interval iff they agree  *)
(* at its ends and at every breakpoint of either inside it; the code's     *)
(* breakpoints are the segment ends, the definition's breakpoints are      *)
(* known (DefBreaks), so every segment is decided exactly by finitely many *)
(* evaluations of the mathematical definition in DilithiumMath.tla.        *)
(* Montgomery reduction (64-bit operands) and the NTT product are recorded *)
(* on seeded and extreme operands and checked with 8-bit-limb modular      *)
(* multiplication.                                                         *)
(***************************************************************************)
EXTENDS DilithiumMath, IOUtils, Json, TLC, FiniteSets

Trace == ndJsonDeserialize(IOEnv.VERIF_TRACE)
ResultPath == IOEnv.VERIF_RESULT

When(c, s) == IF c THEN <<s>> ELSE <<>>

\* points of [lo, hi] at which the segment is compared with the definition
Around(S, lo, hi) == {x \in UNION {{s - 1, s, s + 1} : s \in S} : x >= lo /\ x <= hi}
MultiplesIn(m, off, lo, hi) == {k * m + off : k \in ((lo - off) \div m)..((hi - off) \div m + 1)}

DefBreaks(fn, lo, hi) ==
  CASE fn \in {"decompose", "usehint0", "usehint1"} ->
         MultiplesIn(ALPHA, 0, lo, hi) \cup MultiplesIn(ALPHA, GAMMA2, lo, hi) \cup MultiplesIn(ALPHA, GAMMA2 + 1, lo, hi) \cup {Q - 1 - GAMMA2, Q - GAMMA2, Q - 1}
    [] fn = "power2round" -> MultiplesIn(8192, 4096, lo, hi) \cup MultiplesIn(8192, 4097, lo, hi)
    [] fn = "reduce32" -> {}        \* congruence and range are checked, not a particular representative
    [] fn = "caddq" -> {-1, 0}
    [] fn = "chknorm" -> {-(Q - 1) \div 2, (Q - 1) \div 2, 0} \cup {-GAMMA1 + BETA, GAMMA1 - BETA, -GAMMA2 + BETA, GAMMA2 - BETA, -GAMMA2, GAMMA2, -(Q - 1) \div 8, (Q - 1) \div 8}
    [] fn = "makehint" -> {-GAMMA2 - 1, -GAMMA2, -GAMMA2 + 1, GAMMA2, GAMMA2 + 1}
    [] OTHER -> {}

Points(e) == {e.lo, e.hi} \cup Around(DefBreaks(e.fn, e.lo, e.hi), e.lo, e.hi)

\* outputs of the segment at a
Out(e, k, a) == e.c[k] + e.s[k] * a

JudgeSeg(e) ==
  LET bad(a) ==
        CASE e.fn = "decompose"   -> LET d == DecomposeDef(a) IN Out(e, 1, a) # d.hi \/ Out(e, 2, a) # d.lo
          [] e.fn = "power2round" -> LET d == Power2RoundDef(a) IN Out(e, 1, a) # d.hi \/ Out(e, 2, a) # d.lo
          [] e.fn = "usehint0"    -> Out(e, 1, a) # UseHintDef(0, a)
          [] e.fn = "usehint1"    -> Out(e, 1, a) # UseHintDef(1, a)
          [] e.fn = "caddq"       -> Out(e, 1, a) # (IF a < 0 THEN a + Q ELSE a)
          [] e.fn = "makehint"    -> Out(e, 1, a) # MakeHintDef(a, e.p)
          [] e.fn = "chknorm"     -> \* a over the output range of reduce32 (what the callers pass); bound e.p
                                     (Out(e, 1, a) = 1) # (IF e.p > (Q - 1) \div 8 THEN TRUE ELSE NormExceeds(a, e.p))
          [] e.fn = "reduce32"    -> LET r == Out(e, 1, a) IN (r - a) % Q # 0 \/ r < -6283009 \/ r > 6283008
  IN When(\E a \in Points(e) : bad(a), "table of the real function differs from its definition")

\* --- Montgomery: operand a = sign * (a2 * 2^40 + a1 * 2^20 + a0), result r
Two20 == 1048576
ModOfLimbs(e) ==
  LET m == (MulMod(e.a2 % Q, MulMod(Two20 % Q, Two20 % Q)) + MulMod(e.a1 % Q, Two20 % Q) + (e.a0 % Q)) % Q
  IN IF e.sign < 0 THEN (Q - m) % Q ELSE m
Two32ModQ == MulMod(MulMod(65536 % Q, 65536 % Q), 1)
JudgeMont(e) ==
  When(MulMod(e.r % Q, Two32ModQ) # ModOfLimbs(e), "montgomeryReduce: r * 2^32 is not congruent to the operand")
  \o When(e.r <= -Q \/ e.r >= Q, "montgomeryReduce: result not in (-q, q)")

\* --- NTT product: c = invntt(ntt(a) o ntt(b)) must be the negacyclic product at the listed positions
NegacyclicAt(a, b, k) ==      \* coefficient k (0-based) of a * b mod (X^256 + 1, q)
  LET RECURSIVE acc(_, _)
      acc(i, s) == IF i = NN THEN s
                   ELSE LET j == k - i
                            t == IF j >= 0 THEN MulMod(a[i + 1] % Q, b[j + 1] % Q)
                                 ELSE (Q - MulMod(a[i + 1] % Q, b[j + NN + 1] % Q)) % Q
                        IN acc(i + 1, (s + t) % Q)
  IN acc(0, 0)
JudgeNtt(e) ==
  When(\E k \in {e.pos[i] : i \in 1..Len(e.pos)} : e.c[k + 1] % Q # NegacyclicAt(e.a, e.b, k),
       "invntt(ntt(a) o ntt(b)) is not the negacyclic product")
  \o When(\E i \in 1..NN : e.c[i] <= -Q \/ e.c[i] >= Q, "product coefficient outside (-q, q)")

\* --- zetas table: zetas[k] = 2^32 * root^brv8(k) mod q, centred
Brv8(k) == LET b(i) == (k \div 2^i) % 2 IN b(0) * 128 + b(1) * 64 + b(2) * 32 + b(3) * 16 + b(4) * 8 + b(5) * 4 + b(6) * 2 + b(7)
RECURSIVE PowMod(_, _)
PowMod(x, n) == IF n = 0 THEN 1 ELSE IF n % 2 = 0 THEN LET h == PowMod(x, n \div 2) IN MulMod(h, h) ELSE MulMod(x, PowMod(x, n - 1))
JudgeZetas(e) ==
  When(\E k \in 1..255 : e.z[k + 1] % Q # MulMod(Two32ModQ, PowMod(1753, Brv8(k))) \/ Abs(e.z[k + 1]) > (Q - 1) \div 2,
       "zetas table is not 2^32 * 1753^brv(k) mod q")

Judge(e) ==
  CASE e.ev = "seg" -> JudgeSeg(e)
    [] e.ev = "cover" -> When(e.covered # e.expected, "function table does not cover its whole domain (harness)")
    [] e.ev = "mont" -> JudgeMont(e)
    [] e.ev = "ntt" -> JudgeNtt(e)
    [] e.ev = "zetas" -> JudgeZetas(e)
    [] OTHER -> <<"unknown event">>
DriftOf(e) == <<>>

VARIABLES l, viols, nviol, drift, counts, done
K == INSTANCE TraceKit WITH Judge <- Judge, Drift <- DriftOf
Spec == K!Spec
View == K!View
=============================================================================
