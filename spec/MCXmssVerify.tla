---------------------------- MODULE MCXmssVerify ----------------------------
(* Design checks of XmssVerify.tla.                                          *)
EXTENDS XmssVerify

VARIABLES w, sigLen, b0, b1, phase, mut, idx, hf
vars == <<w, sigLen, b0, b1, phase, mut, idx, hf>>

\* ---- cascade: every (w, length class, descriptor pair)
Lens(ww) == LET b == SigBase(ww) IN
  {0, 1, 4, 36, b - 32, b - 1, b + 1, b + 31, b + 33, b + 127, b + 129,
   b + 32 * 30 - 1, b + 32 * 30 + 1, 2 * (b + 32 * 30)} \cup {b + 32 * k : k \in 0..31}

Init == /\ w = 16 /\ sigLen = 0 /\ b0 = 0 /\ b1 = 0 /\ phase = 0 /\ mut = {} /\ idx = 0 /\ hf = 0
Next ==
  \/ /\ phase = 0 /\ w' \in {4, 16, 256} /\ phase' = 1 /\ UNCHANGED <<sigLen, b0, b1, mut, idx, hf>>
  \* all 16 values of the two nibbles the cascade reads (hash function, height), a few of the others
  \/ /\ phase = 1 /\ sigLen' \in Lens(w) /\ b0' \in {x \in 0..255 : x \div 16 \in {0, 1, 7, 15}} /\ phase' = 2 /\ UNCHANGED <<w, b1, mut, idx, hf>>
  \/ /\ phase = 2 /\ b1' \in {x \in 0..255 : x \div 16 \in {0, 5, 15}} /\ phase' = 3 /\ UNCHANGED <<w, sigLen, b0, mut, idx, hf>>
  \* ---- symbolic scenarios: every single mutation and every pair, every index
  \/ /\ phase = 0 /\ idx' \in 0..(2^HT - 1) /\ hf' \in SupportedHash /\ phase' = 10 /\ UNCHANGED <<w, sigLen, b0, b1, mut>>
  \/ /\ phase = 10 /\ mut' \in {M \in SUBSET (Components \cup Uninterpreted) : Cardinality(M) <= 2} /\ phase' = 11
     /\ UNCHANGED <<w, sigLen, b0, b1, idx, hf>>

\* WOTS parameters against the values of RFC 8391 / the reference code
WotsTable ==
  phase = 0 =>
  /\ <<WotsLen1(4), WotsLen2(4), WotsLen(4), WotsKeySize(4)>> = <<128, 5, 133, 4256>>
  /\ <<WotsLen1(16), WotsLen2(16), WotsLen(16), WotsKeySize(16)>> = <<64, 3, 67, 2144>>
  /\ <<WotsLen1(256), WotsLen2(256), WotsLen(256), WotsKeySize(256)>> = <<32, 2, 34, 1088>>
  /\ \A ww \in {4, 16, 256} : \A h \in 0..30 : (SigSize(h, ww) - SigBase(ww)) \div 32 = h

\* the cascade lets through exactly: right signature type, a length that is the
\* signature size of the height the descriptor names, that height even and >= 4,
\* a supported hash function
CascadeSound ==
  phase = 3 =>
    LET c == Cascade(sigLen, w, b0, b1)
        d == Decode(<<b0, b1, 0>>)
    IN /\ c.kind = "refused" => c.msg \in LibraryMessages
       /\ (c.kind = "continue") <=>
            (d.sig = XMSSSig /\ d.height \in 4..30 /\ sigLen = SigSize(d.height, w) /\ d.hf \in SupportedHash)
       /\ c.kind = "continue" => c.h = d.height /\ c.hf = d.hf /\ KeyHeightOK(c.h)

\* the symbolic verifier accepts a genuine triple, and a mutated one iff nothing
\* the scheme interprets was touched
AcceptIffUnmodified ==
  phase = 11 =>
    LET t == Genuine(hf, "s", idx, MsgT("m"))
        m == Mutate(t, mut, (idx + 1) % 2^HT, (hf + 1) % 3)
    IN VerifyT(m.msg, m.sig, m.pk, HT) <=> (mut \cap Components = {})

\* a genuine signature of ANOTHER key, index or seed does not verify under this key
ForeignRejected ==
  phase = 10 =>
    LET t == Genuine(hf, "s", idx, MsgT("m"))
        o == Genuine(hf, "other", idx, MsgT("m"))
        j == Genuine(hf, "s", (idx + 1) % 2^HT, MsgT("m2"))
    IN /\ VerifyT(t.msg, t.sig, t.pk, HT)
       /\ ~VerifyT(o.msg, o.sig, t.pk, HT)
       /\ ~VerifyT(t.msg, j.sig, t.pk, HT)       \* signature made for another message at another index
       /\ VerifyT(j.msg, j.sig, t.pk, HT)        \* ... which is of course valid for its own message
=============================================================================
