------------------------------ MODULE Reduce32 ------------------------------
(***************************************************************************)
(* reduce32 (dilithium/reduce.go) over unbounded integers, for Apalache:   *)
(* for EVERY int32 operand a <= 2^31 - 2^22 - 1 (the documented domain; a  *)
(* larger a overflows a + 2^22) the result r = a - ((a + 2^22) >> 23) * q  *)
(* is congruent to a and lies in -6283009..6283008.  TLC decides the same  *)
(* statement by enumeration (MCDilithiumMath, Mode = "reduce32") on a      *)
(* stride; the whole 2^32 domain is out of reach of enumeration.           *)
(* The arithmetic shift is floor division, which is TLA+'s \div.           *)
(***************************************************************************)
EXTENDS Integers

VARIABLE
  \* @type: Int;
  a

Q == 8380417
TWO22 == 4194304
TWO23 == 8388608
TWO31 == 2147483648

Red(x) == x - ((x + TWO22) \div TWO23) * Q

Init == a \in (-TWO31)..(TWO31 - TWO22 - 1)
Next == UNCHANGED a

Inv == LET r == Red(a) IN (r - a) % Q = 0 /\ r >= -6283009 /\ r <= 6283008
\* control (must be VIOLATED): the bound of the reference comment is one too small
CommentBound == Red(a) <= 6283007
=============================================================================
