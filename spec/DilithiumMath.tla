---------------------------- MODULE DilithiumMath ----------------------------
(***************************************************************************)
(* Arithmetic of CRYSTALS-Dilithium (round 3.1, level 5 as in go-qrllib):  *)
(* the mathematical definitions, and transcriptions of the Go bit tricks   *)
(* (dilithium/reduce.go, rounding.go, poly.go polyChkNorm) so that TLC can *)
(* show "trick = definition" on the whole operating domain.                *)
(* TLC integers are 32-bit; every intermediate below stays inside int32    *)
(* exactly when the Go int32 computation does.                             *)
(***************************************************************************)
EXTENDS Integers, Sequences

Q      == 8380417
QINV   == 58728449
D      == 13
GAMMA1 == 524288            \* 2^19
GAMMA2 == 261888            \* (Q-1)/32
ALPHA  == 2 * GAMMA2
BETA   == 120               \* TAU * ETA
OMEGA  == 75
TAU    == 60
ETA    == 2
KK     == 8                 \* K (rows)
LL     == 7                 \* L (columns)
NN     == 256

---------------------------------------------------------------------------
(* definitions *)

Mod(x, m) == x % m                                   \* TLA+ %: result in 0..m-1 for m > 0
\* centred representative in (-m/2, m/2]  (m even)
CMod(x, m) == LET r == x % m IN IF r > m \div 2 THEN r - m ELSE r
\* centred representative modulo the odd q, in [-(q-1)/2, (q-1)/2]
CModQ(x) == LET r == x % Q IN IF r > (Q - 1) \div 2 THEN r - Q ELSE r
Abs(x) == IF x < 0 THEN -x ELSE x

Power2RoundDef(r) ==          \* r in [0, q)
  LET r0 == CMod(r, 2^D) IN [hi |-> (r - r0) \div 2^D, lo |-> r0]

DecomposeDef(r) ==            \* r in [0, q)
  LET r0 == CMod(r, ALPHA)
  IN IF r - r0 = Q - 1 THEN [hi |-> 0, lo |-> r0 - 1]
     ELSE [hi |-> (r - r0) \div ALPHA, lo |-> r0]

HighBits(r) == DecomposeDef(r).hi
LowBits(r)  == DecomposeDef(r).lo

\* the hint for (low part a0 after the correction, high part a1): do the high bits of
\* a1*alpha + a0 differ from a1 ?
MakeHintDef(a0, a1) == IF HighBits((a1 * ALPHA + a0) % Q) # a1 THEN 1 ELSE 0

UseHintDef(h, r) ==
  LET d == DecomposeDef(r)
  IN IF h = 0 THEN d.hi
     ELSE IF d.lo > 0 THEN (d.hi + 1) % 16 ELSE (d.hi - 1) % 16

\* the norm test: |centred(a)| >= B
NormExceeds(a, B) == Abs(CModQ(a)) >= B

---------------------------------------------------------------------------
(* transcriptions of the Go code; Sar = arithmetic shift right, Shl = shift left *)

Sar(x, n) == x \div 2^n               \* floor division = arithmetic shift for negative x too
Shl(x, n) == x * 2^n
SignMask(x, v) == IF x < 0 THEN v ELSE 0          \* (x >> 31) & v
And15(x) == x % 16                                \* x & 15 for any int (two's complement)

Reduce32Impl(a) == LET t == Sar(a + 2^22, 23) IN a - t * Q

CAddQImpl(a) == a + SignMask(a, Q)

Power2RoundImpl(a) ==
  LET a1 == Sar(a + 2^(D - 1) - 1, D) IN [hi |-> a1, lo |-> a - Shl(a1, D)]

DecomposeImpl(a) ==
  LET t1 == Sar(a + 127, 7)
      t2 == Sar(t1 * 1025 + 2^21, 22)
      a1 == And15(t2)
      l0 == a - a1 * 2 * GAMMA2
      a0 == l0 - SignMask((Q - 1) \div 2 - l0, Q)
  IN [hi |-> a1, lo |-> a0]

MakeHintImpl(a0, a1) == IF a0 > GAMMA2 \/ a0 < -GAMMA2 \/ (a0 = -GAMMA2 /\ a1 # 0) THEN 1 ELSE 0

UseHintImpl(a, hint) ==
  LET d == DecomposeImpl(a)
  IN IF hint = 0 THEN d.hi
     ELSE IF d.lo > 0 THEN And15(d.hi + 1) ELSE And15(d.hi - 1)

\* polyChkNorm on one coefficient: 1 iff the bound is exceeded
ChkNormImpl(a, B) ==
  IF B > (Q - 1) \div 8 THEN 1
  ELSE LET t == a - SignMask(a, 2 * a) IN IF t >= B THEN 1 ELSE 0

---------------------------------------------------------------------------
(* products modulo q with 32-bit integers: 8-bit limbs of the second factor *)
MulMod(a, b) ==    \* a, b in [0, q): (a * b) mod q without leaving 32 bits (a * 255 < 2^31)
  LET b0 == b % 256  b1 == (b \div 256) % 256  b2 == b \div 65536
      s2 == (a * b2) % Q
      s1 == (((s2 * 256) % Q) + ((a * b1) % Q)) % Q
  IN (((s1 * 256) % Q) + ((a * b0) % Q)) % Q

InfNorm(seq) == LET RECURSIVE mx(_, _)
                    mx(i, m) == IF i > Len(seq) THEN m ELSE mx(i + 1, IF Abs(CModQ(seq[i])) > m THEN Abs(CModQ(seq[i])) ELSE m)
                IN mx(1, 0)
=============================================================================
